"""C11 - derived dynamics are passive and stable."""
from __future__ import annotations
import numpy as np
from hypothesis import strategies as st
from vlib.core import Test, R
from vlib import gen, circuits as cc, dynamic as dy, tol
from checks.c10 import build

PROPERTY = 'C11'
LEVEL = 'exploration'
RULE = ('random RLC + ideal-source circuits in the exact domain of C10 with strictly positive R, C, L (all naming schemes / listing '
        'orders); matrix clause: largest eigenvalue of the symmetric part of W*A + A^T*W with W = diag(C..., L...) taken from the '
        'generated circuit in the published state order, and the real parts of the eigenvalues of A; simulation clause: finite '
        'piecewise-linear pulses on every source, stored energy from the reported capacitor voltages / inductor currents after '
        'the input has returned to zero must be non-increasing and bounded. Non-trivial = >= 2 states and >= 1 resistor; '
        'distinct = case hash.')
ASSUMPTIONS = ['state order = capacitors then inductors, each in listing order (as published by the model container)',
               'slack 1e-9 relative to the matrix / energy scale', 'cond(A_ref) > 1e10 not judged']


def check_matrix(case, r: R):
    spec = case['circuit']
    comps, caps, inds, vsrc, isrc = dy.parts(spec)
    if not caps and not inds:
        return r.reject('no reactive element')
    if not vsrc and not isrc:
        return r.reject('no source')
    if not dy.in_domain(spec):
        return r.reject('outside the domain (degenerate)')
    ref = dy.Ref(spec)
    A_ref, _ = ref.float_matrices()
    if np.linalg.cond(A_ref) > 1e10:
        return r.reject('ill-conditioned')
    n = len(caps) + len(inds)
    r.nt(n >= 2 and any(c['kind'] == 'resistor' for c in comps))
    ssm = None
    with r.lib('build'):
        _, ssm = build(spec)
    if ssm is None:
        return
    A = np.asarray(ssm.A, dtype=float)
    if A.shape != (n, n):
        return r.fail('state-dimension', str(A.shape))
    W = np.diag([float(w) for w in ref.W])
    ev = np.linalg.eigvals(A)
    if np.iscomplex(ev).any() and np.abs(ev.imag).max() > 1e-9 * np.abs(ev).max():
        r.cls('oscillatory')
    if len(inds) >= 2:
        r.cls('>=2-inductors')
    if caps and inds:
        r.cls('L-and-C')
    M = W @ A
    S = (M + M.T) / 2
    lam = np.linalg.eigvalsh(S)
    scale = np.abs(M).max() + 1e-300
    if abs(lam.max()) <= 1e-9 * scale and abs(lam.min()) > 1e-6 * scale:
        r.cls('semidefinite-lossless-direction')
    if lam.max() > 1e-9 * scale:
        r.fail('energy-can-grow', f'largest eigenvalue of sym(W*A) = {lam.max():.6g} (scale {scale:.3g})')
    if ev.real.max() > 1e-9 * (np.abs(A).max() + 1e-300):
        r.fail('unstable-natural-frequency', f'eigenvalue with real part {ev.real.max():.6g}')
    # the exact reference model obeys the same inequality - guards the oracle itself
    Mr = W @ A_ref
    lr = np.linalg.eigvalsh((Mr + Mr.T) / 2)
    if lr.max() > 1e-9 * (np.abs(Mr).max() + 1e-300):
        raise AssertionError('reference model is not passive: oracle bug')


def pulse(t, amp, t_on, t_off, ramp):
    return np.interp(t, [0.0, t_on, t_on + ramp, t_off, t_off + ramp], [0.0, 0.0, amp, amp, 0.0])


def check_energy(case, r: R):
    from CircuitCalculator.Circuit.solution import TransientSolution
    spec = case['circuit']
    comps, caps, inds, vsrc, isrc = dy.parts(spec)
    if not caps and not inds:
        return r.reject('no reactive element')
    if not vsrc and not isrc:
        return r.reject('no source')
    if not dy.in_domain(spec):
        return r.reject('outside the domain (degenerate)')
    ref = dy.Ref(spec)
    A_ref, B_ref = ref.float_matrices()
    ev = np.linalg.eigvals(A_ref)
    if np.linalg.cond(A_ref) > 1e10 or ev.real.max() >= -1e-9 * np.abs(ev).max():
        # lossless (or numerically lossless) modes: no finite settling time to scale the time grid with
        return r.reject('ill-conditioned or marginal')
    tau_max = 1 / np.abs(ev.real).min()
    tau_min = 1 / np.abs(ev).max()
    N = case['N']
    T = case['span'] * tau_max
    # the observation window need not start at 0: pulses are placed relative to the window's first sample
    t0 = case.get('t0', 0.0) * T
    t = t0 + np.linspace(0.0, T, N)
    dt = t[1] - t[0]
    if t0:
        r.cls('window-does-not-start-at-0')
    k_on, k_off, k_ramp = 2, N // 3, max(1, case['ramp'])
    inputs = {}
    for c in vsrc + isrc:
        amp = c['args'].get('V', c['args'].get('I')) * case['amps'][len(inputs) % len(case['amps'])]
        inputs[c['id']] = (lambda a: (lambda tt: pulse(np.asarray(tt, dtype=float) - t0, a, k_on * dt, k_off * dt, k_ramp * dt)))(amp)
    r.nt(len(caps) + len(inds) >= 2 and any(c['kind'] == 'resistor' for c in comps))
    if np.abs(ev.imag).max() > 1e-6 * np.abs(ev).max():
        r.cls('oscillatory')
    r.cls('stiff' if tau_max / tau_min > 1e3 else 'non-stiff')
    sol = None
    with r.lib('TransientSolution'):
        sol = TransientSolution(cc.lib_circuit(spec), tin=t, input=inputs)
    if sol is None:
        return
    E = np.zeros(N)
    with r.lib('state-queries'):
        for c in caps:
            E = E + 0.5 * c['args']['C'] * np.asarray(sol.get_voltage(c['id'])[1], dtype=float) ** 2
        for c in inds:
            E = E + 0.5 * c['args']['L'] * np.asarray(sol.get_current(c['id'])[1], dtype=float) ** 2
    k0 = k_off + k_ramp + 1
    tail = E[k0:]
    Emax = E.max()
    if Emax <= 0 or not np.isfinite(Emax):
        if not np.isfinite(Emax):
            r.fail('response-not-finite', '')
        return
    if tail.size >= 2:
        inc = np.diff(tail).max()
        if inc > 1e-9 * Emax:
            k = int(np.argmax(np.diff(tail))) + k0
            r.fail('stored-energy-grows-without-excitation', f'E[{k}]={E[k]:.6g} -> E[{k + 1}]={E[k + 1]:.6g} (max {Emax:.3g})')
        if tail.max() > E[k0] * (1 + 1e-9) + 1e-9 * Emax:
            r.fail('response-unbounded', f'energy after switch-off exceeds the energy at switch-off')


@st.composite
def matrix_case(draw):
    return {'circuit': draw(dy.any_dynamic())}


@st.composite
def energy_case(draw):
    return {'circuit': draw(dy.any_dynamic(max_states=4)), 'N': draw(st.sampled_from([200, 400, 800])), 'span': draw(st.sampled_from([3.0, 6.0, 12.0])),
            'ramp': draw(st.sampled_from([1, 1, 3, 10])), 't0': draw(st.sampled_from([0.0, 0.0, 0.37, 1.0, 5.0])), 'amps': draw(st.lists(st.sampled_from([1.0, -1.0, 0.5, 2.0, 0.0]), min_size=1, max_size=3))}


TESTS = [
    Test('matrix', check_matrix, strategy=matrix_case, quick=3000, thorough=40000),
    Test('energy', check_energy, strategy=energy_case, quick=400, thorough=6000),
]
