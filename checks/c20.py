"""C20 - analyses are pure, repeatable functions of the circuit description (histories of calls)."""
from __future__ import annotations
import copy, math
import numpy as np
from hypothesis import strategies as st
from vlib.core import Test, R, canon
from vlib import gen, refsolve as rs, circuits as cc, dynamic as dy, isolate

PROPERTY = 'C20'
LEVEL = 'exploration'
RULE = ('generated call histories (10-30 steps) over a pool of descriptions (two networks, a phasor circuit, a dynamic circuit, a '
        'loader description, a nested document) and shared argument objects (one exemption list per network, one c_values / '
        'l_values dictionary pair, one description list, one polar complex dictionary, one document) that every step reuses; '
        'operations = the public calls of C01-C12, C16, C17. After every step the canonicalised result must equal the result of '
        'the same operation on freshly rebuilt objects in a pristine forked process (isolation server), the step repeated must '
        'give the same result, and deep snapshots of every pooled object, every shared argument and every mutable default '
        'argument of the transformer / state-space functions must be unchanged. Non-trivial = history touching >= 2 different '
        'descriptions with >= 1 repeated operation and >= 1 reuse of a shared argument object; distinct = case hash.')
ASSUMPTIONS = ['isolation = process isolation on one machine (fork from a server process that never ran a library operation)',
               'floats are compared with 1e-12 relative tolerance, structures exactly', 'an operation that raises must raise the same exception type in isolation']


# ---------------------------------------------------------------------------------------------------------------
# canonical results

def cnum(x):
    if isinstance(x, (complex, np.complexfloating)):
        return ['c', float(np.real(x)), float(np.imag(x))]
    if isinstance(x, (float, np.floating, int, np.integer)) and not isinstance(x, bool):
        return float(x)
    return x


def cval(x):
    if isinstance(x, np.ndarray):
        return [cval(v) for v in x.tolist()]
    if isinstance(x, (list, tuple)):
        return [cval(v) for v in x]
    if isinstance(x, dict):
        return {str(k): cval(v) for k, v in x.items()}
    if isinstance(x, complex):
        return cnum(x)
    if isinstance(x, (np.floating, np.integer, np.complexfloating)):
        return cnum(x)
    return x


def cnet(net):
    return {'ref': net.node_zero_label, 'branches': [[b.node1, b.node2, b.element.name, b.element.type, cnum(complex(b.element.Z) if np.isfinite(b.element.Z) else complex('inf')),
                                                     cnum(complex(b.element.V) if np.isfinite(b.element.V) else 0j), cnum(complex(b.element.I) if np.isfinite(b.element.I) else 0j)] for b in net.branches]}


def same(a, b, rtol=1e-12):
    if isinstance(a, float) and isinstance(b, float):
        if a == b or (math.isnan(a) and math.isnan(b)):
            return True
        return abs(a - b) <= rtol * max(abs(a), abs(b))
    if type(a) is not type(b):
        if isinstance(a, (int, float)) and isinstance(b, (int, float)) and not isinstance(a, bool) and not isinstance(b, bool):
            return same(float(a), float(b), rtol)
        return False
    if isinstance(a, list):
        if len(a) == 3 and a and a[0] == 'c' and len(b) == 3:
            m = max(abs(complex(a[1], a[2])), abs(complex(b[1], b[2])))
            return abs(complex(a[1], a[2]) - complex(b[1], b[2])) <= rtol * m or (a[1:] == b[1:])
        return len(a) == len(b) and all(same(x, y, rtol) for x, y in zip(a, b))
    if isinstance(a, dict):
        return a.keys() == b.keys() and all(same(a[k], b[k], rtol) for k in a)
    return a == b


# ---------------------------------------------------------------------------------------------------------------
# context: the live objects of one history (in process) or of one isolated request (fresh)

class Ctx:
    def __init__(self, pool):
        self.pool = pool
        self._net, self._keep, self._cir, self._dyn, self._cl = {}, {}, {}, {}, None
        self.desc = copy.deepcopy(pool['desc'])
        self.doc = decode_doc(copy.deepcopy(pool['doc']))
        self.polar = copy.deepcopy(pool['polar'])

    def net(self, i):
        if i not in self._net:
            self._net[i] = rs.lib_network(self.pool['nets'][i])
        return self._net[i]

    def keep(self, i):
        if i not in self._keep:
            n = self.net(i)
            ids = self.pool['keep'][i]
            self._keep[i] = [n[x].element for x in ids]
        return self._keep[i]

    def cir_spec(self, which=0):
        return self.pool['circuit'] if not which else self.pool['circuit2']

    def dyn_spec(self, which=0):
        return self.pool['dynamic'] if not which else self.pool['dynamic2']

    def cir(self, which=0):
        if which not in self._cir:
            self._cir[which] = cc.lib_circuit(self.cir_spec(which))
        return self._cir[which]

    def dyn(self, which=0):
        if which not in self._dyn:
            self._dyn[which] = cc.lib_circuit(self.dyn_spec(which))
        return self._dyn[which]

    def cl(self, which=0):
        if self._cl is None:
            self._cl = {}
        if which not in self._cl:
            c = self.dyn(which)
            self._cl[which] = ({x.id: float(x.value['C']) for x in c.components if x.type == 'capacitor'},
                               {x.id: float(x.value['L']) for x in c.components if x.type == 'inductance'})
        return self._cl[which]

    def snapshot(self):
        """deep snapshot of everything an operation could wrongly edit"""
        from CircuitCalculator.Network import transformers as trf
        from CircuitCalculator.Network.NodalAnalysis import state_space_model as ssm
        from CircuitCalculator.Circuit import state_space_model as cssm, circuit as cir
        snap = {'desc': canon(self.desc), 'doc': canon(encode_doc(self.doc)), 'polar': canon(self.polar)}
        for i, n in self._net.items():
            snap[f'net{i}'] = canon(cnet(n))
        for i, k in self._keep.items():
            snap[f'keep{i}'] = canon([[e.name, e.type, cnum(complex(e.Z)) if np.isfinite(e.Z) else 'inf'] for e in k])
        for tag, group in (('phasor', self._cir), ('dynamic', self._dyn)):
            for nm, c in group.items():
                snap[f'circuit-{tag}{nm}'] = canon([[x.type, x.id, list(x.nodes), cval(x.value)] for x in c.components] + [c.ground_node])
        for nm, (cv, lv) in (self._cl or {}).items():
            snap[f'c_values/l_values{nm}'] = canon([list(cv.items()), list(lv.items())])
        for f in (trf.remove_short_circuit_elements, trf.short_circuitify_voltage_sources, trf.open_circuitify_current_sources, trf.remove_ideal_current_sources,
                  trf.remove_ideal_voltage_sources, trf.passive_network, ssm.state_space_matrices, ssm.nodal_state_space_model, cssm.state_space_model, cir.transform):
            snap[f'defaults:{f.__name__}'] = repr([d for d in (f.__defaults__ or ()) if isinstance(d, (list, dict))])
        return snap


def encode_doc(x):
    if isinstance(x, complex):
        return {'__c__': [x.real, x.imag]}
    if isinstance(x, dict):
        return {k: encode_doc(v) for k, v in x.items()}
    if isinstance(x, list):
        return [encode_doc(v) for v in x]
    return x


def decode_doc(x):
    if isinstance(x, dict):
        if set(x) == {'__c__'}:
            return complex(*x['__c__'])
        return {k: decode_doc(v) for k, v in x.items()}
    if isinstance(x, list):
        return [decode_doc(v) for v in x]
    return x


# ---------------------------------------------------------------------------------------------------------------
# operations: each returns a canonical plain result

def _solution(sol, net_spec):
    out = {}
    for n in rs.nodes_of(net_spec):
        out[f'phi:{n}'] = cnum(sol.get_potential(n))
    for b in net_spec['branches']:
        out[f'V:{b["id"]}'] = cnum(sol.get_voltage(b['id']))
        out[f'I:{b["id"]}'] = cnum(sol.get_current(b['id']))
        out[f'P:{b["id"]}'] = cnum(sol.get_power(b['id']))
    return out


def op_solve(ctx, a):
    from CircuitCalculator.Network.NodalAnalysis.bias_point_analysis import nodal_analysis_bias_point_solver
    return _solution(nodal_analysis_bias_point_solver(ctx.net(a['i'])), ctx.pool['nets'][a['i']])


def op_solve_reref(ctx, a):
    from CircuitCalculator.Network.NodalAnalysis.bias_point_analysis import nodal_analysis_bias_point_solver
    from CircuitCalculator.Network.transformers import switch_ground_node
    spec = ctx.pool['nets'][a['i']]
    nodes = rs.nodes_of(spec)
    return _solution(nodal_analysis_bias_point_solver(switch_ground_node(ctx.net(a['i']), nodes[a['p'] % len(nodes)])), spec)


def _port(ctx, a):
    nodes = rs.nodes_of(ctx.pool['nets'][a['i']])
    return nodes[a['p'] % len(nodes)], nodes[(a['p'] + a['q']) % len(nodes)]


def op_impedance(ctx, a):
    from CircuitCalculator.Network.NodalAnalysis.node_analysis import open_circuit_impedance
    return cnum(complex(open_circuit_impedance(ctx.net(a['i']), *_port(ctx, a))))


def op_ocv(ctx, a):
    from CircuitCalculator.Network.NodalAnalysis.bias_point_analysis import open_circuit_voltage
    return cnum(complex(open_circuit_voltage(ctx.net(a['i']), *_port(ctx, a))))


def op_element_impedance(ctx, a):
    from CircuitCalculator.Network.NodalAnalysis.node_analysis import element_impedance
    br = ctx.pool['nets'][a['i']]['branches']
    return cnum(complex(element_impedance(ctx.net(a['i']), br[a['p'] % len(br)]['id'])))


def op_transformer(ctx, a):
    from CircuitCalculator.Network import transformers as trf
    n, keep = ctx.net(a['i']), ctx.keep(a['i'])
    name = a['name']
    if name == 'remove_open':
        res = trf.remove_open_circuit_elements(n)
    elif name == 'switch_ground':
        nodes = rs.nodes_of(ctx.pool['nets'][a['i']])
        res = trf.switch_ground_node(n, nodes[a['p'] % len(nodes)])
    elif name == 'remove_element':
        br = ctx.pool['nets'][a['i']]['branches']
        res = trf.remove_element(n, br[a['p'] % len(br)]['id'])
    elif a.get('default_keep'):
        res = getattr(trf, name)(n)
    else:
        res = getattr(trf, name)(n, keep=keep)
        # "reusing the same description": an exemption list that describes the same elements (equal frozen value
        # objects, e.g. taken from a second load of the network) must select the same branches as the objects themselves
        by_value = getattr(trf, name)(n, keep=[copy.copy(e) for e in keep])
        out = cnet(res)
        return {'network': out, '__invariants__': [['exemption-list-matched-by-value', canon(cnet(by_value)) == canon(out)]]}
    return cnet(res)


def op_transform(ctx, a):
    from CircuitCalculator.Circuit.circuit import transform, frequency_components
    c = ctx.cir(a.get('which', 0))
    if a.get('default_w'):
        nets = transform(c)
    elif a.get('res') is not None:
        nets = transform(c, a['ws'], a['res'])
    else:
        nets = transform(c, a['ws'])
    return {'nets': [cnet(n) for n in nets], 'freqs': cval(frequency_components(c, a['w_max']))}


def _circuit_solution(sol, spec, times=None):
    out = {}
    nodes = []
    for c in spec['components']:
        for n in c['nodes']:
            if n not in nodes:
                nodes.append(n)
    repeatable = []

    def f(v):
        if times is None:
            return cval(v)
        # a returned time function is itself a query: evaluating the same object again (on the whole grid, then on a
        # part of it) must give the same numbers
        first = np.array(v(np.array(times)), dtype=float)
        again = np.array(v(np.array(times)), dtype=float)
        part = np.array(v(np.array(times[:1])), dtype=float)
        repeatable.append(bool(np.array_equal(first, again) and np.array_equal(first[:1], part)))
        return cval(first)
    for n in nodes:
        out[f'phi:{n}'] = f(sol.get_potential(n))
    for c in spec['components']:
        if c['kind'] == 'ground':
            continue
        out[f'V:{c["id"]}'] = f(sol.get_voltage(c['id']))
        out[f'I:{c["id"]}'] = f(sol.get_current(c['id']))
        out[f'P:{c["id"]}'] = f(sol.get_power(c['id']))
    if times is not None:
        out['__invariants__'] = [['time-function-repeatable', all(repeatable)]]
    return out


def op_dc(ctx, a):
    from CircuitCalculator.Circuit.solution import DCSolution
    return _circuit_solution(DCSolution(ctx.cir(a.get('which', 0))), ctx.cir_spec(a.get('which', 0)))


def op_complex(ctx, a):
    from CircuitCalculator.Circuit.solution import ComplexSolution
    return _circuit_solution(ComplexSolution(ctx.cir(a.get('which', 0)), w=a['w'], peak_values=a['peak']), ctx.cir_spec(a.get('which', 0)))


def op_time(ctx, a):
    from CircuitCalculator.Circuit.solution import TimeDomainSolution
    return _circuit_solution(TimeDomainSolution(ctx.cir(a.get('which', 0)), w_max=a['w_max']), ctx.cir_spec(a.get('which', 0)), times=a['times'])


def op_frequency(ctx, a):
    from CircuitCalculator.Circuit.solution import FrequencyDomainSolution
    return _circuit_solution(FrequencyDomainSolution(ctx.cir(a.get('which', 0)), w_max=a['w_max']), ctx.cir_spec(a.get('which', 0)))


def op_state_space(ctx, a):
    from CircuitCalculator.Circuit.state_space_model import state_space_model
    wh = a.get('which', 0)
    spec = ctx.dyn_spec(wh)
    ids = [c['id'] for c in spec['components'] if c['kind'] != 'ground']
    nodes = []
    for c in spec['components']:
        for n in c['nodes']:
            if n not in nodes:
                nodes.append(n)
    if a.get('defaults'):
        m = state_space_model(ctx.dyn(wh))
    else:
        m = state_space_model(ctx.dyn(wh), potential_nodes=nodes[:2], voltage_ids=ids[:2], current_ids=ids[-2:])
    return {'A': cval(m.A), 'B': cval(m.B), 'C': cval(m.C), 'D': cval(m.D)}


def op_nodal_ssm(ctx, a):
    from CircuitCalculator.Circuit.circuit import transform_circuit
    from CircuitCalculator.Network.NodalAnalysis.state_space_model import nodal_state_space_model
    wh = a.get('which', 0)
    c_values, l_values = ctx.cl(wh)
    m = nodal_state_space_model(transform_circuit(ctx.dyn(wh), w=0), c_values=c_values, l_values=l_values)
    return {'A': cval(m.A), 'B': cval(m.B), 'sources': list(m.sources)}


def op_transient(ctx, a):
    from CircuitCalculator.Circuit.solution import TransientSolution
    wh = a.get('which', 0)
    spec = ctx.dyn_spec(wh)
    srcs = [c for c in spec['components'] if c['kind'] in ('dc_voltage_source', 'dc_current_source')]
    t = np.arange(40) * a['dt']
    funcs = {c['id']: (lambda v: (lambda tt: v * np.minimum(np.asarray(tt, float) / a['dt'], 1.0)))(c['args'].get('V', c['args'].get('I'))) for c in srcs}
    sol = TransientSolution(ctx.dyn(wh), tin=t, input=funcs)
    ids = [c['id'] for c in spec['components'] if c['kind'] != 'ground']
    out = {i: [cval(sol.get_voltage(i)[1]), cval(sol.get_current(i)[1]), cval(sol.get_power(i)[1])] for i in ids}
    again = {i: cval(sol.get_voltage(i)[1]) for i in ids}
    out['__invariants__'] = [['voltage-series-unchanged-by-later-queries', all(again[i] == out[i][0] for i in ids)]]
    return out


def op_load_network(ctx, a):
    from CircuitCalculator.Network.loaders import load_network
    return cnet(load_network(ctx.desc))


def op_to_complex(ctx, a):
    from CircuitCalculator.Network.loaders import to_complex
    return cnum(to_complex(ctx.polar, degree=a['degree']))


def op_circuit_load(ctx, a):
    from CircuitCalculator.Circuit.dump_load import undictify_circuit
    d = ctx.doc.get('circuit_description')
    c = undictify_circuit(d)
    return [[x.type, x.id, list(x.nodes), cval(x.value)] for x in c.components]


def op_serialize(ctx, a):
    from CircuitCalculator import dump_load
    text = dump_load.serialize(ctx.doc, a['fmt'])
    back = dump_load.deserialize(text, a['fmt'])
    return {'text': text, 'back': cval(encode_doc(back))}


def op_circuit_serialize(ctx, a):
    """the circuit-level serialiser (text only: its YAML form is not loadable, which is outside the statement)"""
    from CircuitCalculator.Circuit import dump_load as cdl
    c = ctx.cir(a.get('which', 0)) if a.get('group') != 'dynamic' else ctx.dyn(a.get('which', 0))
    return {'text': cdl.serialize(c, a['fmt'])}


def op_serialize_dictified(ctx, a):
    """the generic serialiser on a dictified circuit (holds tuples and, for complex sources, complex numbers)"""
    from CircuitCalculator import dump_load
    from CircuitCalculator.Circuit import dump_load as cdl
    d = cdl.dictify_circuit(ctx.cir(a.get('which', 0)))
    return {'text': dump_load.serialize(d, a['fmt'])}


def op_undictify(ctx, a):
    from CircuitCalculator import dump_load
    enc = ctx.doc.get('encoded')
    return cval(encode_doc(dump_load.undictify_all_complex_values(enc)))


OPS = {'solve': op_solve, 'solve_reref': op_solve_reref, 'impedance': op_impedance, 'ocv': op_ocv, 'element_impedance': op_element_impedance, 'transformer': op_transformer,
       'transform': op_transform, 'dc': op_dc, 'complex': op_complex, 'time': op_time, 'frequency': op_frequency, 'state_space': op_state_space,
       'nodal_ssm': op_nodal_ssm, 'transient': op_transient, 'load_network': op_load_network, 'to_complex': op_to_complex,
       'circuit_load': op_circuit_load, 'serialize': op_serialize, 'undictify': op_undictify,
       'circuit_serialize': op_circuit_serialize, 'serialize_dictified': op_serialize_dictified}
SHARED_ARG_OPS = {'transformer', 'nodal_ssm', 'load_network', 'to_complex', 'serialize', 'undictify', 'circuit_load'}


def run_op(ctx, step):
    try:
        return ['ok', OPS[step['op']](ctx, step['args'])]
    except Exception as e:  # noqa: BLE001 - the contract compares the exception type with the isolated run
        return ['raised', type(e).__name__]


def preload():
    import CircuitCalculator.Circuit.solution, CircuitCalculator.Circuit.state_space_model, CircuitCalculator.Circuit.dump_load  # noqa: F401
    import CircuitCalculator.Circuit.impedance, CircuitCalculator.Network.loaders, CircuitCalculator.Network.transformers  # noqa: F401
    import CircuitCalculator.Network.NodalAnalysis.bias_point_analysis, CircuitCalculator.Network.NodalAnalysis.state_space_model  # noqa: F401
    import CircuitCalculator.Network.equivalent_sources, CircuitCalculator.dump_load, scipy.signal, scipy.linalg, yaml, json  # noqa: F401


def isolated(request):
    """executed in a pristine forked process: fresh context, one operation"""
    pool, step = request
    return run_op(Ctx(pool), step)


# ---------------------------------------------------------------------------------------------------------------

def check_history(case, r: R):
    pool, steps = case['pool'], case['steps']
    srv = isolate.server('checks.c20', 'isolated')
    ctx = Ctx(pool)
    for i in range(len(pool['nets'])):
        ctx.net(i); ctx.keep(i)
    for wh in (0, 1):
        ctx.cir(wh); ctx.dyn(wh); ctx.cl(wh)
    snap0 = ctx.snapshot()
    ops_seen, repeated, shared_reuse, touched = [], False, 0, set()
    for k, step in enumerate(steps):
        sig = canon(step)
        repeated = repeated or sig in ops_seen
        ops_seen.append(sig)
        touched.add(step['op'] + str(step['args'].get('i', '')))
        shared_reuse += step['op'] in SHARED_ARG_OPS
        tag = step['op'] + (':' + step['args']['name'] if step['op'] == 'transformer' else '')
        got = run_op(ctx, step)
        status, fresh = srv.call((pool, step))
        if status != 'ok':
            raise RuntimeError(f'isolation server: {fresh}')
        if got[0] != fresh[0]:
            r.fail(f'{"raises-only-in-history" if got[0] == "raised" else "raises-only-in-isolation"}[{tag}]', f'step {k}: history {canon(got)[:120]} isolation {canon(fresh)[:120]}')
        elif not same(got[1], fresh[1]):
            r.fail(f'differs-from-isolation[{tag}]', f'step {k} of {len(steps)}: history {canon(got)[:160]} isolation {canon(fresh)[:160]}')
        if got[0] == 'ok' and isinstance(got[1], dict):
            for name, holds in got[1].get('__invariants__', []):
                if not holds:
                    r.fail(f'query-not-read-only[{tag}]', f'step {k}: {name}')
        again = run_op(ctx, step)
        if again[0] != got[0] or not same(again[1], got[1]):
            r.fail(f'repeat-differs[{tag}]', f'step {k}: {canon(got)[:120]} then {canon(again)[:120]}')
        now = ctx.snapshot()
        for key, val in now.items():
            if snap0.get(key, val) != val:
                r.fail(f'mutated:{key.split(":")[0].rstrip("0123456789")}[{tag}]', f'step {k}: {key} changed: {snap0[key][:140]} -> {val[:140]}')
        if r.failures:
            break
    r.nt(len(touched) >= 2 and repeated and shared_reuse >= 2)
    if shared_reuse >= 2:
        r.cls('shared-argument-reused')
    if sum(1 for s in steps if s['op'] == 'load_network') >= 2:
        r.cls('loader-reuse')
    if sum(1 for s in steps if s['op'] == 'transformer') >= 2:
        r.cls('keep-reuse')
    if len({s['op'] for s in steps} & {'dc', 'complex', 'time', 'frequency', 'state_space', 'transient', 'solve'}) >= 3:
        r.cls('interleaved-analyses')
    for s in steps:
        r.cls('op=' + s['op'])


# ---------------------------------------------------------------------------------------------------------------
# generation

TRANSFORMERS = ['remove_short_circuit_elements', 'short_circuitify_voltage_sources', 'open_circuitify_current_sources', 'remove_ideal_current_sources',
                'remove_ideal_voltage_sources', 'passive_network', 'remove_open', 'switch_ground', 'remove_element']


@st.composite
def step(draw, w0):
    op = draw(st.sampled_from(list(OPS) + ['transformer', 'transformer', 'load_network', 'to_complex', 'serialize', 'solve']))
    a = {}
    if op in ('transform', 'dc', 'complex', 'time', 'frequency', 'state_space', 'nodal_ssm', 'transient', 'circuit_serialize', 'serialize_dictified'):
        a['which'] = draw(st.sampled_from([0, 1]))
    if op in ('circuit_serialize', 'serialize_dictified'):
        a['fmt'] = draw(st.sampled_from(['json', 'yaml', 'yaml']))
    if op == 'circuit_serialize':
        a['group'] = draw(st.sampled_from(['phasor', 'dynamic']))
    if op in ('solve', 'solve_reref', 'impedance', 'ocv', 'element_impedance', 'transformer'):
        a['i'] = draw(st.sampled_from([0, 1]))
        a['p'] = draw(st.sampled_from(range(6)))
        a['q'] = draw(st.sampled_from(range(1, 5)))
    if op == 'transformer':
        a['name'] = draw(st.sampled_from(TRANSFORMERS))
        a['default_keep'] = draw(st.sampled_from([False, False, False, True]))
    if op == 'transform':
        a.update(ws=[0.0, w0, w0 + 0.5], default_w=draw(st.sampled_from([False, False, True])), w_max=3.5 * w0,
                 res=draw(st.sampled_from([None, 1e-6, 1.0, 10.0])))
    if op == 'complex':
        a.update(w=draw(st.sampled_from([0.0, w0, 2 * w0])), peak=draw(st.booleans()))
    if op in ('time', 'frequency'):
        a.update(w_max=draw(st.sampled_from([3.5 * w0, 1.5 * w0])), times=[0.0, 0.3 / w0, 2.0 / w0])
    if op == 'state_space':
        a['defaults'] = draw(st.sampled_from([False, True]))
    if op == 'transient':
        a['dt'] = draw(st.sampled_from([1e-5, 1e-4]))
    if op == 'to_complex':
        a['degree'] = draw(st.booleans())
    if op == 'serialize':
        a['fmt'] = draw(st.sampled_from(['json', 'yaml']))
    return {'op': op, 'args': a}


@st.composite
def history_case(draw):
    import checks.c17 as c17
    nets = [draw(gen.network(nmin=2, nmax=4, max_branches=6, opens_shorts=True, min_sources=1)) for _ in range(2)]
    keep = []
    for n in nets:
        cand = [b['id'] for b in n['branches'] if b['kind'] in ('vsrc', 'isrc', 'linv', 'lini', 'short')]
        keep.append(draw(st.lists(st.sampled_from(cand), max_size=2, unique=True)) if cand else [])
    w0 = draw(st.sampled_from([1.0, 50.0, 314.0, 314.1592653589793, 2.5]))
    circuit = draw(cc.circuit(2, 4, 6, source_kinds_v=('dc_voltage_source', 'ac_voltage_source', 'periodic_voltage_source'),
                              source_kinds_i=('dc_current_source', 'ac_current_source'), w_pool=[w0], lossy_prob=0, forced_lossy=False))
    dynamic = draw(dy.ladder_circuit(max_sections=2))
    # value-perturbed twins (same names, topology, listing order): interleaving analyses of a description and its twin
    # exposes answers remembered by name or structure
    if draw(st.sampled_from([True, False])):
        nets[1] = gen.twin_network(nets[0])
        keep[1] = list(keep[0])
    desc = draw(c17.net_case())['desc']
    doc = draw(c17.document())
    cdesc = draw(c17.cir_case())['desc']
    full_doc = {'user': c17.encode(doc), 'circuit_description': cdesc, 'encoded': c17.to_notation(c17.decode(c17.encode(doc)))}
    polar = {'abs': draw(gen.pos_real(-2, 2)), 'phase': draw(st.sampled_from([30.0, 1.0, -45.0, 90.0]))}
    steps = draw(st.lists(step(w0), min_size=10, max_size=30))
    # make sure the history repeats an operation and reuses shared arguments
    steps.append(copy.deepcopy(steps[draw(st.integers(0, len(steps) - 1))]))
    return {'pool': {'nets': nets, 'keep': keep, 'circuit': circuit, 'circuit2': gen.twin_circuit(circuit), 'dynamic': dynamic,
                     'dynamic2': gen.twin_circuit(dynamic), 'desc': desc, 'doc': full_doc, 'polar': polar}, 'steps': steps}


TESTS = [
    Test('history', check_history, strategy=history_case, quick=480, thorough=6000),
]
