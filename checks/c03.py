"""C03 - results are independent of names, listing order, reference node and terminal order."""
from __future__ import annotations
import copy
import numpy as np
from hypothesis import strategies as st
from vlib.core import Test, R
from vlib import gen, refsolve as rs, tol, circuits as cc, dynamic as dy

PROPERTY = 'C03'
LEVEL = 'exploration'
RULE = ('a base case from the domains of C01/C06 (networks), C02 (phasor circuits), C10/C12 (state-space models, transient runs) '
        'plus a transformation: bijective renaming of nodes and elements with adversarial labels, permutation of the element '
        'list, reversal of a subset of elements (terminals swapped, source value negated), new reference node; oracle '
        '(metamorphic, library vs itself): potential differences, currents, voltages, powers, port impedances, per-source '
        'frequency responses and transient waveforms agree up to the renaming and the sign of the reversed elements\' own '
        'voltage and current. Non-trivial = the transformation changes the rank order of >= 2 labels, or permutes the list, or '
        'reverses an element, or moves the reference; distinct = case hash.')
ASSUMPTIONS = ['only well-posed / in-domain base cases are judged (exact domain tests of C01/C10)', 'relative tolerance 1e-7 (1e-5 for '
               'state-space quantities) of the natural scale of the base solution']

SRC = ('vsrc', 'isrc', 'linv', 'lini')


# ---- transformations ------------------------------------------------------------------------------------------------

def rank_changed(old, new):
    ro = sorted(range(len(old)), key=lambda i: old[i])
    rn = sorted(range(len(new)), key=lambda i: new[i])
    return ro != rn


def transform_network(net, tr):
    nodes = rs.nodes_of(net)
    nmap = {n: tr['nodes'][i] for i, n in enumerate(nodes)}
    ids = [b['id'] for b in net['branches']]
    imap = {x: tr['ids'][i] for i, x in enumerate(ids)}
    out = []
    for k, b in enumerate(net['branches']):
        nb = copy.deepcopy(b)
        nb['id'] = imap[b['id']]
        nb['n1'], nb['n2'] = nmap[b['n1']], nmap[b['n2']]
        if tr['rev'][k % len(tr['rev'])]:
            nb['n1'], nb['n2'] = nb['n2'], nb['n1']
            for key in ('V', 'I'):
                if b['kind'] in SRC and key in nb['p']:
                    z = -complex(rs.cx(nb['p'][key]))
                    nb['p'][key] = [z.real, z.imag] if isinstance(b['p'][key], list) else -b['p'][key]
        out.append(nb)
    order = sorted(range(len(out)), key=lambda i: tr['order'][i % len(tr['order'])] * 1000 + i)
    out = [out[i] for i in order]
    ref = nmap[nodes[tr['ref'] % len(nodes)]] if tr['move_ref'] else nmap[net['ref']]
    revd = {imap[b['id']] for k, b in enumerate(net['branches']) if tr['rev'][k % len(tr['rev'])]}
    return {'ref': ref, 'branches': out}, nmap, imap, revd


def nontrivial(old_nodes, old_ids, tr, nmap, imap, listing_changed):
    return (rank_changed(old_nodes, [nmap[n] for n in old_nodes]) or rank_changed(old_ids, [imap[i] for i in old_ids])
            or listing_changed or any(tr['rev']) or tr['move_ref'])


def classes(r: R, tr, listing_changed, nodes_rank, ids_rank):
    if nodes_rank:
        r.cls('node-rank-order-changed')
    if ids_rank:
        r.cls('element-rank-order-changed')
    if listing_changed:
        r.cls('listing-permuted')
    if any(tr['rev']):
        r.cls('element-reversed')
    if tr['move_ref']:
        r.cls('reference-moved')


@st.composite
def transformation(draw, n_nodes, n_ids):
    return {'nodes': draw(gen.labels(n_nodes)), 'ids': draw(gen.labels(n_ids)),
            'order': draw(st.lists(st.sampled_from(range(10)), min_size=n_ids, max_size=n_ids)),
            'rev': draw(st.lists(st.sampled_from([False, False, True]), min_size=n_ids, max_size=n_ids)),
            'move_ref': draw(st.booleans()), 'ref': draw(st.sampled_from(range(10)))}


# ---- network level ---------------------------------------------------------------------------------------------------------

def check_network(case, r: R):
    from CircuitCalculator.Network.NodalAnalysis.bias_point_analysis import nodal_analysis_bias_point_solver as solver
    from CircuitCalculator.Network.NodalAnalysis.node_analysis import open_circuit_impedance
    net, tr = case['net'], case['tr']
    ref = rs.solve(net)
    if ref is None:
        return r.reject('ill-posed')
    if not rs.well_conditioned(net, tol.KAPPA_MAX):
        return r.reject('ill-conditioned')
    S_phi, S_I = tol.scales(net, ref)
    net2, nmap, imap, revd = transform_network(net, tr)
    nodes = rs.nodes_of(net)
    ids = [b['id'] for b in net['branches']]
    listing_changed = [imap[i] for i in ids] != [b['id'] for b in net2['branches']]
    nr, ir = rank_changed(nodes, [nmap[n] for n in nodes]), rank_changed(ids, [imap[i] for i in ids])
    r.nt(nontrivial(nodes, ids, tr, nmap, imap, listing_changed))
    classes(r, tr, listing_changed, nr, ir)
    if any(b['kind'] in SRC and tr['rev'][k % len(tr['rev'])] for k, b in enumerate(net['branches'])):
        r.cls('source-reversed')
    a = b_ = None
    with r.lib('solve-base'):
        a = solver(rs.lib_network(net))
    with r.lib('solve-transformed'):
        b_ = solver(rs.lib_network(net2))
    if a is None or b_ is None:
        return
    with r.lib('compare'):
        shift = b_.get_potential(nmap[net['ref']])
        for n in nodes:
            if not tol.close(b_.get_potential(nmap[n]) - shift, a.get_potential(n), S_phi, tol.RTOL_REL):
                r.fail('potential-difference-changed', f'node {n!r}->{nmap[n]!r}: {a.get_potential(n)} vs {b_.get_potential(nmap[n]) - shift}')
        for i in ids:
            sg = -1 if imap[i] in revd else 1
            if not tol.close(sg * b_.get_voltage(imap[i]), a.get_voltage(i), S_phi, tol.RTOL_REL):
                r.fail('voltage-changed', f'{i!r}->{imap[i]!r}: {a.get_voltage(i)} vs {sg * b_.get_voltage(imap[i])}')
            if not tol.close(sg * b_.get_current(imap[i]), a.get_current(i), S_I[i], tol.RTOL_REL):
                r.fail('current-changed', f'{i!r}->{imap[i]!r}: {a.get_current(i)} vs {sg * b_.get_current(imap[i])}')
            if not tol.close(b_.get_power(imap[i]), a.get_power(i), S_phi * S_I[i], tol.RTOL_REL):
                r.fail('power-changed', f'{i!r}->{imap[i]!r}: {a.get_power(i)} vs {b_.get_power(imap[i])}')
    # port impedance
    n1, n2 = nodes[case['port'][0] % len(nodes)], nodes[(case['port'][0] + case['port'][1]) % len(nodes)]
    zx = rs.port_impedance(net, n1, n2)
    if n1 != n2 and zx is not None and not isinstance(zx, str):
        import checks.c06 as c6
        if c6.cond_ok(net, n1, n2):
            r.cls('port-impedance')
            with r.lib('port-impedance'):
                z1 = open_circuit_impedance(rs.lib_network(net), n1, n2)
                z2 = open_circuit_impedance(rs.lib_network(net2), nmap[n1], nmap[n2])
                if not tol.close(z1, z2, max(abs(complex(zx)), 1e-4 * c6.zscale(net)), 1e-6):
                    r.fail('port-impedance-changed', f'{n1!r},{n2!r}: {z1} vs {z2}')


@st.composite
def network_case(draw):
    net = draw(gen.network(nmin=2, nmax=6, max_branches=10, min_sources=1))
    return {'net': net, 'tr': draw(transformation(len(rs.nodes_of(net)), len(net['branches']))),
            'port': [draw(st.sampled_from(range(10))), draw(st.sampled_from(range(1, 10)))]}


# ---- circuit level -----------------------------------------------------------------------------------------------------------

NEG = {'dc_voltage_source': 'V', 'ac_voltage_source': 'V', 'dc_current_source': 'I', 'ac_current_source': 'I'}


def transform_circuit(spec, tr):
    comps = [c for c in spec['components']]
    nodes = []
    for c in comps:
        for n in c['nodes']:
            if n not in nodes:
                nodes.append(n)
    nmap = {n: tr['nodes'][i] for i, n in enumerate(nodes)}
    imap = {c['id']: tr['ids'][i] for i, c in enumerate(comps)}
    out, revd = [], set()
    old_ground = cc.ground_of(spec)
    for k, c in enumerate(comps):
        nc = copy.deepcopy(c)
        nc['id'] = imap[c['id']]
        nc['nodes'] = [nmap[n] for n in c['nodes']]
        if c['kind'] != 'ground' and tr['rev'][k % len(tr['rev'])]:
            nc['nodes'] = nc['nodes'][::-1]
            revd.add(nc['id'])
            if c['kind'] in NEG:
                nc['args'][NEG[c['kind']]] = -nc['args'][NEG[c['kind']]]
        out.append(nc)
    order = sorted(range(len(out)), key=lambda i: tr['order'][i % len(tr['order'])] * 1000 + i)
    out = [out[i] for i in order]
    # reference: explicit ground component placed on the chosen node
    out = [c for c in out if c['kind'] != 'ground']
    two_nodes = [n for n in nodes]
    newref = nmap[two_nodes[tr['ref'] % len(two_nodes)]] if tr['move_ref'] else nmap[old_ground]
    gid = [l for l in tr['ids'][::-1] + ['gnd_', 'gnd__'] if l not in {c['id'] for c in out}][0]
    out.insert(tr['ref'] % (len(out) + 1), {'kind': 'ground', 'id': gid, 'nodes': [newref], 'args': {}})
    return {'components': out}, nmap, imap, revd, nodes


def check_phasor(case, r: R):
    from CircuitCalculator.Circuit.solution import ComplexSolution, DCSolution
    import checks.c02 as c2
    p = c2.prepare({'circuit': case['circuit'], 'w': case['w']}, r)
    if p is None:
        return
    net, ref, (S_phi, S_I) = p
    spec, tr, w = case['circuit'], case['tr'], case['w']
    spec2, nmap, imap, revd, nodes = transform_circuit(spec, tr)
    ids = [c['id'] for c in spec['components'] if c['kind'] != 'ground']
    listing = [c['id'] for c in spec2['components'] if c['kind'] != 'ground'] != [imap[i] for i in ids]
    nr, ir = rank_changed(nodes, [nmap[n] for n in nodes]), rank_changed(ids, [imap[i] for i in ids])
    r.nt(nontrivial(nodes, ids, tr, nmap, imap, listing))
    classes(r, tr, listing, nr, ir)
    a = b = None
    with r.lib('solve-base'):
        a = ComplexSolution(cc.lib_circuit(spec), w=w, peak_values=case['peak'])
    with r.lib('solve-transformed'):
        b = ComplexSolution(cc.lib_circuit(spec2), w=w, peak_values=case['peak'])
    if a is None or b is None:
        return
    g0 = cc.ground_of(spec)
    with r.lib('compare'):
        shift = b.get_potential(nmap[g0])
        for n in nodes:
            if not tol.close(b.get_potential(nmap[n]) - shift, a.get_potential(n), S_phi, tol.RTOL_REL):
                r.fail('potential-difference-changed', f'node {n!r}->{nmap[n]!r}')
        for i in ids:
            sg = -1 if imap[i] in revd else 1
            if not tol.close(sg * b.get_voltage(imap[i]), a.get_voltage(i), S_phi, tol.RTOL_REL):
                r.fail('voltage-changed', f'{i!r}->{imap[i]!r}: {a.get_voltage(i)} vs {sg * b.get_voltage(imap[i])}')
            if not tol.close(sg * b.get_current(imap[i]), a.get_current(i), S_I[i], tol.RTOL_REL):
                r.fail('current-changed', f'{i!r}->{imap[i]!r}: {a.get_current(i)} vs {sg * b.get_current(imap[i])}')
            if not tol.close(b.get_power(imap[i]), a.get_power(i), S_phi * S_I[i], tol.RTOL_REL):
                r.fail('power-changed', f'{i!r}->{imap[i]!r}')
    if w == 0:
        with r.lib('dc'):
            da, db = DCSolution(cc.lib_circuit(spec)), DCSolution(cc.lib_circuit(spec2))
            sh = db.get_potential(nmap[g0])
            for n in nodes:
                if not tol.close(db.get_potential(nmap[n]) - sh, da.get_potential(n), S_phi, tol.RTOL_REL):
                    r.fail('dc-potential-difference-changed', f'node {n!r}')


@st.composite
def phasor_case(draw):
    import checks.c02 as c2
    base = draw(c2.phasor_case())
    comps = base['circuit']['components']
    nodes = {n for c in comps for n in c['nodes']}
    base['tr'] = draw(transformation(len(nodes), len(comps)))
    return base


# ---- state space and transient ---------------------------------------------------------------------------------------------

def responses(spec, ws, N, r: R, sub):
    """per source: frequency response of every potential/voltage/current to the source at its nominal value, and one
    transient run with a trapezoid on every source"""
    from CircuitCalculator.Circuit.solution import TransientSolution
    import checks.c10 as c10
    comps, caps, inds, vsrc, isrc = dy.parts(spec)
    out = None
    with r.lib(sub):
        circuit, ssm = c10.build(spec)
        A, B = np.asarray(ssm.A, float), np.asarray(ssm.B, float)
        n = A.shape[0]
        srcs = list(ssm.sources)
        nodes = []
        for c in comps:
            for x in c['nodes']:
                if x not in nodes:
                    nodes.append(x)
        rows = {('phi', x): (np.ravel(ssm.c_row_for_potential(x)), np.ravel(ssm.d_row_for_potential(x))) for x in nodes}
        for c in comps:
            rows[('V', c['id'])] = (np.ravel(ssm.c_row_voltage(c['id'])), np.ravel(ssm.d_row_voltage(c['id'])))
            rows[('I', c['id'])] = (np.ravel(ssm.c_row_current(c['id'])), np.ravel(ssm.d_row_current(c['id'])))
        fr = {}
        for c in vsrc + isrc:
            k = srcs.index(c['id'])
            val = c['args'].get('V', c['args'].get('I'))
            for w in ws:
                G = np.linalg.solve(1j * w * np.eye(n) - A, B[:, k].astype(complex))
                for key, (cr, dr) in rows.items():
                    fr[(c['id'], w, key)] = (cr @ G + dr[k]) * val
        ev = np.linalg.eigvals(A)
        dt = 1 / np.abs(ev).max() / 20
        t = np.arange(N) * dt
        funcs = {}
        for c in vsrc + isrc:
            val = c['args'].get('V', c['args'].get('I'))
            funcs[c['id']] = (lambda v: (lambda tt: v * np.interp(np.asarray(tt, float) / dt, [0, 1, N // 2, N // 2 + 5, N], [0, 1, 1, -0.5, -0.5])))(val)
        sol = TransientSolution(circuit, tin=t, input=funcs)
        ts = {('phi', x): np.asarray(sol.get_potential(x)[1], float) for x in nodes}
        for c in comps:
            ts[('V', c['id'])] = np.asarray(sol.get_voltage(c['id'])[1], float)
            ts[('I', c['id'])] = np.asarray(sol.get_current(c['id'])[1], float)
        out = (fr, ts, nodes)
    return out


def check_dynamic(case, r: R):
    spec, tr = case['circuit'], case['tr']
    comps, caps, inds, vsrc, isrc = dy.parts(spec)
    if not (caps or inds) or not (vsrc or isrc):
        return r.reject('no reactive element or no source')
    if not dy.in_domain(spec):
        return r.reject('outside the domain (degenerate)')
    ref = dy.Ref(spec)
    A_ref, _ = ref.float_matrices()
    if np.linalg.cond(A_ref) > 1e6:
        return r.reject('ill-conditioned')
    NEG.update({'dc_voltage_source': 'V', 'dc_current_source': 'I'})
    spec2, nmap, imap, revd, nodes = transform_circuit(spec, tr)
    ids = [c['id'] for c in spec['components'] if c['kind'] != 'ground']
    listing = [c['id'] for c in spec2['components'] if c['kind'] != 'ground'] != [imap[i] for i in ids]
    nr, ir = rank_changed(nodes, [nmap[n] for n in nodes]), rank_changed(ids, [imap[i] for i in ids])
    r.nt(nontrivial(nodes, ids, tr, nmap, imap, listing))
    classes(r, tr, listing, nr, ir)
    li = [c['id'] for c in inds]
    if [imap[i] for i in li] != sorted(imap[i] for i in li):
        r.cls('inductors-listed-non-alphabetically-after')
    if any(c['id'] in {x['id'] for x in vsrc + isrc} and imap[c['id']] in revd for c in comps):
        r.cls('source-reversed')
    ev = np.linalg.eigvals(A_ref)
    ws = [0.0, float(f'{np.abs(ev).max() * 0.7:.4g}'), float(f'{np.abs(ev).min() * 1.3:.4g}')]
    ws = [w for w in ws if np.linalg.cond(1j * w * np.eye(len(ev)) - A_ref) < 1e6]
    a = responses(spec, ws, 120, r, 'base')
    b = responses(spec2, ws, 120, r, 'transformed')
    if a is None or b is None:
        return
    fa, ta, _ = a
    fb, tb, _ = b
    g0 = cc.ground_of(spec)
    vs = max([abs(v) for (s, w, k), v in fa.items() if k[0] != 'I'] + [1e-300])
    cs = max([abs(v) for (s, w, k), v in fa.items() if k[0] == 'I'] + [1e-300])
    Rs = [c['args']['R'] for c in comps if c['kind'] == 'resistor'] or [1.0]
    vs, cs = max(vs, cs * min(Rs)), max(cs, vs / max(Rs))
    for (s, w, key), v in fa.items():
        if key[0] == 'phi':
            got = fb[(imap[s], w, ('phi', nmap[key[1]]))] - fb[(imap[s], w, ('phi', nmap[g0]))]
            sc = vs
        else:
            sg = -1 if imap[key[1]] in revd else 1
            got = sg * fb[(imap[s], w, (key[0], imap[key[1]]))]
            sc = vs if key[0] == 'V' else cs
        if not tol.close(got, v, sc, 1e-5):
            r.fail(f'frequency-response-{key[0]}-changed', f'source {s!r} w={w} {key[1]!r}: {v} vs {got}')
    tvs = max([np.abs(v).max() for k, v in ta.items() if k[0] != 'I'] + [1e-300])
    tcs = max([np.abs(v).max() for k, v in ta.items() if k[0] == 'I'] + [1e-300])
    tvs, tcs = max(tvs, tcs * min(Rs)), max(tcs, tvs / max(Rs))
    for key, v in ta.items():
        if key[0] == 'phi':
            got = tb[('phi', nmap[key[1]])] - tb[('phi', nmap[g0])]
            sc = tvs
        else:
            sg = -1 if imap[key[1]] in revd else 1
            got = sg * tb[(key[0], imap[key[1]])]
            sc = tvs if key[0] == 'V' else tcs
        if np.abs(got - v).max() > 1e-5 * sc:
            r.fail(f'transient-{key[0]}-changed', f'{key[1]!r}: max deviation {np.abs(got - v).max()} (scale {sc:.3g})')


@st.composite
def dynamic_case(draw):
    spec = draw(dy.any_dynamic(max_states=4))
    comps = spec['components']
    nodes = {n for c in comps for n in c['nodes']}
    return {'circuit': spec, 'tr': draw(transformation(len(nodes), len(comps)))}


TESTS = [
    Test('network', check_network, strategy=network_case, quick=2500, thorough=40000),
    Test('phasor-circuit', check_phasor, strategy=phasor_case, quick=1500, thorough=20000),
    Test('state-space-and-transient', check_dynamic, strategy=dynamic_case, quick=1200, thorough=15000),
]
