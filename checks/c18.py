"""C18 - displayed numbers are accurate to the stated precision."""
from __future__ import annotations
import math, cmath
from decimal import Decimal
from hypothesis import strategies as st
from vlib.core import Test, R
from vlib.parse_display import parse_real, accuracy_ok, ParseError, decade

PROPERTY = 'C18'
LEVEL = 'exploration'
RULE = ('exhaustive: every p-digit decimal mantissa (p<=3; thorough p<=4) x every decade 1e-15..1e15 x {value, next float up, '
        'next float down} x sign x {no prefix, default prefix table, display table}; random: binary64 values in the same range, '
        'p 1..6, every prefix table of Display.py, complex values in all quadrants (Cartesian, polar rad/deg), every print_* '
        'helper. Oracle: strict parser + exact decimal arithmetic: |parsed-value| <= half unit of the p-th significant digit, '
        'exponent multiple of 3, mantissa in [1,1000], signs, infinity only at/above 10^(max_exp+1), parts omitted only if zero or '
        'below 10^min_exp. Non-trivial = rounding carries into the next decade, or crosses a multiple-of-three exponent, or repr '
        'uses exponent notation, or a complex value with two rendered parts; distinct = distinct case hash.')
ASSUMPTIONS = ['an infinity sign is accepted whenever |value| >= 10^(max_exp+1) of the prefix table in force (the statement does not '
               'define where the range ends)', 'an omitted polar angle denotes 0 and must be within one unit of the last printed decimal']

DEF = {-12: 'p', -9: 'n', -6: 'u', -3: 'm', -1: 'c', 3: 'k', 6: 'M', 9: 'G', 12: 'T'}
SMALL = {-6: 'u', -3: 'm', 3: 'k'}
RES = {-3: 'm', 3: 'k', 6: 'M', 9: 'G'}
CAP = {-12: 'p', -9: 'n', -6: 'μ', -3: 'm'}
IND = {-9: 'n', -6: 'μ', -3: 'm'}
HZ = {-3: 'm', 3: 'k', 6: 'M', 9: 'G', 12: 'T'}
TABLES = {'none': None, 'default': DEF, 'small': SMALL, 'res': RES, 'cap': CAP, 'ind': IND, 'hz': HZ}


def table(name):
    t = TABLES[name]
    return None if t is None else {int(k): v for k, v in t.items()}


def judge_real(r: R, sub: str, text: str, value: float, p: int, unit: str, tab, allow_sign=True):
    """the rules of the statement for one real rendering; returns the parsed number or None"""
    try:
        q = parse_real(text, unit, tab, allow_sign)
    except ParseError as e:
        r.fail(f'{sub}:unparseable', f'value {value!r} p={p}: {e}')
        return None
    mx, mn = (16, -16) if tab is None else (max(tab), min(tab))
    if q.inf:
        v = Decimal(value).copy_abs()
        if v + Decimal(5).scaleb(decade(v) - p) * (1 + Decimal('1e-9')) < Decimal(10) ** (mx + 1):   # even rounded up it stays below
            r.fail(f'{sub}:premature-infinity', f'value {value!r} p={p} rendered {text!r}')
        elif (value < 0) != q.neg and allow_sign:
            r.fail(f'{sub}:infinity-sign', f'value {value!r} rendered {text!r}')
        r.cls('saturated')
        return q
    if not accuracy_ok(q.value, value, p):
        r.fail(f'{sub}:accuracy', f'value {value!r} p={p} rendered {text!r} parsed {q.value}')
    if value != 0:
        if q.exp % 3 != 0:
            r.fail(f'{sub}:exponent-not-multiple-of-3', f'value {value!r} p={p} rendered {text!r}')
        if not (Decimal(1) <= q.mant <= Decimal(1000)):
            r.fail(f'{sub}:mantissa-range', f'value {value!r} p={p} rendered {text!r}')
        if q.mant == 1000:
            r.cls('mantissa-1000-carry')
        if (value < 0) != q.neg and q.value != 0:
            r.fail(f'{sub}:sign', f'value {value!r} rendered {text!r}')
        if q.ndigits != max(p, len(str(int(q.mant)))):
            r.fail(f'{sub}:digit-count', f'value {value!r} p={p} rendered {text!r} shows {q.ndigits} digits')
    return q


def nontrivial_real(value: float, p: int) -> bool:
    if value == 0:
        return False
    v = Decimal(value)
    d = decade(v)
    rounded = (v.copy_abs().scaleb(-(d - p + 1))).to_integral_value(rounding='ROUND_HALF_EVEN')
    carry = rounded >= Decimal(10) ** p
    return carry or 'e' in repr(value) or (carry and (d + 1) % 3 == 0)


def sf(value, unit, p, tab):
    from CircuitCalculator.Utils import ScientificFloat
    if tab is None:
        return str(ScientificFloat(value, unit, p))
    return str(ScientificFloat(value, unit, p, True, dict(tab)))


# ---- test 1: exhaustive decimal grid --------------------------------------------------------------------------------

def check_grid(case, r: R):
    p, mant, dec = case['p'], case['mant'], case['dec']
    base = float(f'{mant}e{dec - p + 1}')
    nt = False
    for v in (base, math.nextafter(base, math.inf), math.nextafter(base, -math.inf)):
        nt = nt or nontrivial_real(v, p)
        for sg in (1, -1):
            for tn in ('none', 'default', 'small'):
                tab = table(tn)
                with r.lib(f'float[{tn}]'):
                    text = sf(sg * v, 'V', p, tab)
                    judge_real(r, f'float[{tn}]', text, sg * v, p, 'V', tab)
    r.nt(nt or mant % 10 == 0 or mant > 10 ** p - 11)
    r.cls(f'p={p}')


def grid_cases(tier):
    pmax = 3 if tier == 'quick' else 4
    for p in range(1, pmax + 1):
        for mant in range(10 ** (p - 1), 10 ** p):
            for dec in range(-15, 16):
                yield {'p': p, 'mant': mant, 'dec': dec}


# ---- test 2: random floats ------------------------------------------------------------------------------------------

def check_float(case, r: R):
    v, p, tn, unit = case['v'], case['p'], case['table'], case['unit']
    tab = table(tn)
    r.cls(f'p={p}', f'table={tn}')
    r.nt(nontrivial_real(v, p))
    with r.lib(f'float[{tn}]'):
        text = sf(v, unit, p, tab)
        judge_real(r, f'float[{tn}]', text, v, p, unit, tab)


@st.composite
def mag(draw, lo=-15, hi=15):
    """binary64 magnitude in [1e-15, 1e15): random decade, random mantissa incl. values just below a power of ten"""
    d = draw(st.integers(lo, hi - 1))
    mode = draw(st.integers(0, 5))
    if mode == 0:
        m = draw(st.sampled_from([1.0, 9.5, 9.95, 9.995, 9.9995, 9.99995, 9.999995, 9.9999995, 9.99, 9.999, 1.5, 2.5, 1.05, 1.005, 9.4999999, 1.0000001]))
    elif mode == 1:
        m = draw(st.integers(1000, 9999)) / 1000.0
    else:
        m = draw(st.floats(1.0, 10.0, exclude_max=True, allow_nan=False))
    v = float(f'{m!r}e{d}')
    k = draw(st.integers(-2, 2))
    for _ in range(abs(k)):
        v = math.nextafter(v, math.inf if k > 0 else -math.inf)
    return min(max(v, 1e-15), math.nextafter(1e15, 0))


@st.composite
def float_case(draw):
    v = draw(mag())
    if draw(st.booleans()):
        v = -v
    return {'v': v, 'p': draw(st.integers(1, 6)), 'table': draw(st.sampled_from(list(TABLES))), 'unit': draw(st.sampled_from(['', 'V', 'A', 'W', 'Ω', 'Hz', '/s', 'F', 'H', 'var']))}


# ---- test 3: complex values -----------------------------------------------------------------------------------------

def split_cartesian(text: str):
    """-> (re_text or None, re_neg, im_text or None, im_neg)"""
    s = text
    if 'j' not in s:
        t = s.strip()
        neg = t.startswith('-')
        return (t[1:].strip() if neg else t), neg, None, False
    left, right = s.split('j', 1)
    left = left.rstrip()
    im_neg = False
    if left.endswith('+') or left.endswith('-'):
        im_neg = left.endswith('-')
        left = left[:-1].rstrip()
    if left == '':
        return None, False, right, im_neg
    neg = left.startswith('-')
    return (left[1:].strip() if neg else left), neg, right, im_neg


def judge_complex(r: R, sub, text, z: complex, p, unit, tab, polar, deg, compact=None):
    mx, mn = (16, -16) if tab is None else (max(tab), min(tab))
    if polar:
        if '∠' in text:
            a_text, ang_text = text.split('∠', 1)
        else:
            a_text, ang_text = text, None
        judge_real(r, f'{sub}:abs', a_text, abs(z), p, unit, tab, allow_sign=False)
        ang = math.degrees(cmath.phase(z)) if deg else cmath.phase(z)
        full = 360.0 if deg else 2 * math.pi
        if ang_text is None:
            lim = 0.01 if deg else 1e-4
            if abs(ang) > lim:
                r.fail(f'{sub}:angle-omitted', f'value {z!r} rendered {text!r}')
            return
        if deg:
            if not ang_text.endswith('°'):
                return r.fail(f'{sub}:unparseable', f'degree sign missing in {text!r}')
            ang_text = ang_text[:-1]
        try:
            got = float(ang_text)
            decimals = len(ang_text.split('.')[1])
        except (ValueError, IndexError):
            return r.fail(f'{sub}:unparseable', f'angle in {text!r}')
        if decimals != (2 if deg else 4):
            r.fail(f'{sub}:angle-decimals', text)
        diff = abs((got - ang + full / 2) % full - full / 2)
        if diff > 0.5000001 * 10 ** (-decimals):
            r.fail(f'{sub}:angle-accuracy', f'value {z!r} rendered {text!r} true angle {ang}')
        return
    try:
        re_t, re_neg, im_t, im_neg = split_cartesian(text)
    except Exception as e:  # noqa: BLE001
        return r.fail(f'{sub}:unparseable', f'{text!r}: {e}')
    for part, t, neg, name in ((z.real, re_t, re_neg, 're'), (z.imag, im_t, im_neg, 'im')):
        if t is None:
            if part != 0 and abs(part) >= 10.0 ** mn:
                r.fail(f'{sub}:part-omitted', {'value': [z.real, z.imag], 'p': p, 'text': text, 'part': name, 'min_exp': mn})
            continue
        q = judge_real(r, f'{sub}:{name}', t, abs(part), p, unit, tab, allow_sign=False)
        if q is not None and not q.inf and q.value != 0 and (part < 0) != neg:
            r.fail(f'{sub}:{name}-sign', f'value {z!r} rendered {text!r}')
    if re_t is None and im_t is None:
        r.fail(f'{sub}:unparseable', f'empty rendering {text!r}')
    if re_t is not None and im_t is not None:
        r.cls('both-parts-rendered')


def known_part_omitted(case, sub, detail):
    """F20: a part with 10^min_exp <= |part| < 10^(min_exp+p-1) is suppressed"""
    if not sub.endswith(':part-omitted'):
        return False
    import json
    d = json.loads(detail)
    part = d['value'][0] if d['part'] == 're' else d['value'][1]
    return 10.0 ** d['min_exp'] <= abs(part) < 10.0 ** (d['min_exp'] + d['p'] - 1) * (1 + 1e-12)


KNOWN = {'F20': known_part_omitted}


def check_complex(case, r: R):
    from CircuitCalculator.Utils import ScientificComplex
    z = complex(*case['z'])
    p, tn, polar, deg, compact, unit = case['p'], case['table'], case['polar'], case['deg'], case['compact'], case['unit']
    tab = table(tn)
    r.cls('polar-deg' if polar and deg else ('polar-rad' if polar else 'cartesian'),
          f'quadrant-{"+" if z.real >= 0 else "-"}{"+" if z.imag >= 0 else "-"}')
    ratio = abs(z.real) / abs(z.imag) if z.imag and z.real else 0
    if ratio and (ratio > 1e3 or ratio < 1e-3):
        r.cls('parts-decades-apart')
    r.nt(z.real != 0 and z.imag != 0)
    with r.lib('complex'):
        if tab is None:
            text = str(ScientificComplex(z, unit, p, False, compact, polar, deg))
        else:
            text = str(ScientificComplex(z, unit, p, True, compact, polar, deg, dict(tab)))
        judge_complex(r, 'complex', text, z, p, unit, tab, polar, deg, compact)
        if not polar and compact and ' ' in text:
            r.fail('complex:compact-has-spaces', text)


@st.composite
def complex_case(draw):
    mode = draw(st.integers(0, 5))
    a, b = draw(mag(-9, 9)), draw(mag(-9, 9))
    if mode == 0:
        d = draw(st.integers(-6, 6))
        a, b = draw(mag(d, d + 1)), draw(mag(d, d + 1))
    if mode == 1:
        b = 0.0
    if mode == 2:
        a = 0.0
    if draw(st.booleans()):
        a = -a
    if draw(st.booleans()):
        b = -b
    polar = draw(st.booleans())
    return {'z': [a, b], 'p': draw(st.integers(1, 6)), 'table': draw(st.sampled_from(['none', 'default', 'small', 'res'])),
            'polar': polar, 'deg': draw(st.booleans()) if polar else False, 'compact': draw(st.booleans()),
            'unit': draw(st.sampled_from(['', 'V', 'A', 'Ω', 'W']))}


# ---- test 4: display helpers ----------------------------------------------------------------------------------------

def check_helper(case, r: R):
    from CircuitCalculator.SimpleCircuit import Display as dsp
    h, p = case['helper'], case['p']
    z = complex(*case['z'])
    r.cls(f'helper={h}')
    r.nt(True)
    with r.lib(h):
        if h == 'print_real':
            judge_real(r, h, dsp.print_real(z, 'V', p), z.real, p, 'V', SMALL)
        elif h == 'print_abs':
            judge_real(r, h, dsp.print_abs(z, 'A', p), abs(z), p, 'A', SMALL)
        elif h == 'print_complex':
            judge_complex(r, h, dsp.print_complex(z, 'V', p, case['polar'], case['deg']), z, p, 'V', SMALL, case['polar'], case['deg'])
        elif h == 'print_resistance':
            judge_complex(r, h, dsp.print_resistance(abs(z.real), p), complex(abs(z.real)), p, 'Ω', RES, False, False)
        elif h == 'print_conductance':
            judge_complex(r, h, dsp.print_conductance(abs(z.real), p), complex(abs(z.real)), p, 'S', RES, False, False)
        elif h == 'print_impedance':
            judge_complex(r, h, dsp.print_impedance(z, p), z, p, 'Ω', RES, False, False)
        elif h == 'print_capacitance':
            judge_real(r, h, dsp.print_capacitance(abs(z.real), p), abs(z.real), p, 'F', CAP)
        elif h == 'print_inductance':
            judge_real(r, h, dsp.print_inductance(abs(z.real), p), abs(z.real), p, 'H', IND)
        elif h == 'print_active_power':
            text = dsp.print_active_power(z.real, p)
            if not text or text[-1] not in '↓↑':
                r.fail(f'{h}:unparseable', text)
            else:
                if (text[-1] == '↓') != (z.real > 0):
                    r.fail(f'{h}:direction', f'value {z.real!r} rendered {text!r}')
                judge_real(r, h, text[:-1], abs(z.real), p, 'W', DEF, allow_sign=False)
        elif h == 'print_active_reactive_power':
            text = dsp.print_active_reactive_power(z, p)
            lines = text.split('\n')
            if not lines[0].startswith('P: ') or len(lines) > 2 or (len(lines) == 2 and not lines[1].startswith('Q: ')):
                return r.fail(f'{h}:unparseable', repr(text))
            for tag, part, val, unit in (('P', lines[0][3:], z.real, 'W'),) + ((('Q', lines[1][3:], z.imag, 'var'),) if len(lines) == 2 else ()):
                if not part or part[0] not in '↓↑':
                    r.fail(f'{h}:unparseable', repr(text))
                    continue
                if (part[0] == '↓') != (val > 0) and val != 0:
                    r.fail(f'{h}:{tag}-direction', f'value {z!r} rendered {text!r}')
                judge_real(r, f'{h}:{tag}', part[1:], abs(val), p, unit, DEF, allow_sign=False)
            # the helper hides a reactive part of at most 1e-4 var (its own documented threshold); above it Q must be shown
            if len(lines) == 1 and abs(z.imag) > 1.0001e-4:
                r.fail(f'{h}:Q-omitted', f'value {z!r} rendered {text!r}')
        elif h == 'print_sinosoidal':
            check_sinusoid(case, r, dsp)


def check_sinusoid(case, r: R, dsp):
    """A·cos(ω·t±φ) / A·sin(ω·t±φ) must denote the signal Re{value·e^{jωt}} to the displayed resolution"""
    h = 'print_sinosoidal'
    z, p, w = complex(*case['z']), case['p'], case['w']
    sin, deg, hertz = case['sin'], case['deg'], case['hertz']
    text = dsp.print_sinosoidal(z, 'V', p, w, sin, deg, hertz)
    r.cls('sin-reference' if sin else 'cos-reference', 'hertz' if hertz else 'rad/s')
    if w == 0:
        judge_real(r, f'{h}:amplitude', text, abs(z), p, 'V', SMALL, allow_sign=False)
        return
    import re
    m = re.fullmatch(r'(?P<amp>[^·]+)·(?P<fn>cos|sin)\((?P<twopi>2π·)?(?P<freq>[^·]+)·t(?:(?P<sg>[+-])(?P<ph>[^)]+))?\)', text)
    if not m:
        return r.fail(f'{h}:unparseable', text)
    if (m.group('fn') == 'sin') != sin or bool(m.group('twopi')) != hertz:
        r.fail(f'{h}:form', text)
    qa = judge_real(r, f'{h}:amplitude', m.group('amp'), abs(z), p, 'V', SMALL, allow_sign=False)
    if hertz:
        judge_real(r, f'{h}:frequency', m.group('freq'), w / 2 / math.pi, p, 'Hz', HZ, allow_sign=False)
    else:
        judge_real(r, f'{h}:frequency', m.group('freq'), w, p, '/s', None, allow_sign=False)
    # phase: the displayed function must equal |z|cos(wt + arg z):  cos form: phi = arg z ; sin form: phi = arg z + pi/2
    true_phi = cmath.phase(z) + (math.pi / 2 if sin else 0.0)
    full = 360.0 if deg else 2 * math.pi
    true_disp = math.degrees(true_phi) if deg else true_phi
    if m.group('ph') is None:
        d = abs((true_phi + math.pi) % (2 * math.pi) - math.pi)
        if d > 1.0000001e-4:
            r.fail(f'{h}:phase-omitted', f'value {z!r} sin={sin} rendered {text!r}: signal has phase {true_phi}')
        return
    try:
        qp = parse_real(m.group('ph'), '°' if deg else '', None, allow_sign=False)
    except ParseError as e:
        return r.fail(f'{h}:unparseable', f'phase in {text!r}: {e}')
    shown = qp.value * (-1 if m.group('sg') == '-' else 1)
    k = round((float(shown) - true_disp) / full)
    target = true_disp + k * full            # the representative of the true phase nearest to the displayed one
    if not accuracy_ok(shown, target, p) and abs(float(shown) - target) > 1e-9:
        r.fail(f'{h}:phase', f'value {z!r} sin={sin} deg={deg} p={p} rendered {text!r}: denotes phase {shown}, signal has {target}')


HELPERS = ['print_real', 'print_abs', 'print_complex', 'print_resistance', 'print_conductance', 'print_impedance',
           'print_capacitance', 'print_inductance', 'print_active_power', 'print_active_reactive_power', 'print_sinosoidal']


@st.composite
def helper_case(draw):
    h = draw(st.sampled_from(HELPERS))
    lo, hi = (-15, 15)
    if h in ('print_complex', 'print_impedance', 'print_sinosoidal'):
        lo, hi = -8, 8
    a, b = draw(mag(lo, hi)), draw(mag(lo, hi))
    if h in ('print_complex', 'print_impedance', 'print_sinosoidal') and draw(st.booleans()):
        d = draw(st.integers(-6, 6))
        a, b = draw(mag(d, d + 1)), draw(mag(d, d + 1))
    if draw(st.booleans()):
        a = -a
    if draw(st.booleans()):
        b = -b
    if draw(st.integers(0, 5)) == 0:
        b = 0.0
    polar = draw(st.booleans())
    c = {'helper': h, 'z': [a, b], 'p': draw(st.integers(1, 6)), 'polar': polar, 'deg': draw(st.booleans())}
    if h == 'print_sinosoidal':
        c.update(w=draw(st.one_of(st.just(0.0), mag(-3, 9))), sin=draw(st.booleans()), hertz=draw(st.booleans()))
    return c


TESTS = [
    Test('decimal-grid', check_grid, enumerate=grid_cases, exhaustive=True),
    Test('float-random', check_float, strategy=float_case, quick=40000, thorough=1000000),
    Test('complex', check_complex, strategy=complex_case, quick=20000, thorough=400000),
    Test('display-helpers', check_helper, strategy=helper_case, quick=20000, thorough=400000),
]
