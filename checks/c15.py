"""C15 - saving, reloading and declarative descriptions preserve the circuit."""
from __future__ import annotations
import copy
import math, os, tempfile
from hypothesis import strategies as st
from vlib.core import Test, R
from vlib import gen, circuits as cc, schem
import checks.c13 as c13

PROPERTY = 'C15'
LEVEL = 'exploration'
RULE = ('(a) drawing programs of C13 restricted to the persistable symbol set (DC/AC/rect/complex sources with reversal and deg flags, '
        'resistor, conductance, impedance, capacitor, inductance, ground, wires) are serialised to JSON/YAML (string and file) and '
        'loaded back 1-3 times; after every cycle the translated circuit must match the independent model of the original drawing '
        '(ids, kinds, values, terminal order, connectivity by node bijection, reference node). (b) declarative element lists over '
        'the handler table (every direction, length, place_after, reverse, node and ground entries) are compared with a turtle '
        'model that does not touch schemdraw. Non-trivial = >= 4 symbols incl. >= 1 source and >= 1 wire; distinct = case hash.')
ASSUMPTIONS = ['two-terminal declarative entries always state their direction (schemdraw defaults are not part of the statement)',
               'admittance entries are not generated (the symbol has no translator, programmatically either)']

PERSIST_PASSIVE = ['resistor', 'resistor', 'conductance', 'impedance', 'capacitor', 'inductance']
PERSIST_V = ['voltage_source', 'ac_voltage_source', 'rect_voltage_source', 'complex_voltage_source']
PERSIST_I = ['current_source', 'ac_current_source', 'rect_current_source', 'complex_current_source']


def check_save_reload(case, r: R):
    from CircuitCalculator.SimpleCircuit import dump_load as sdl
    from CircuitCalculator.SimpleCircuit.DiagramTranslator import circuit_translator
    prog, fmt = case['program'], case['fmt']
    syms = [it for it in prog['items'] if 'p' in it and it['sym'] != 'line']
    nwire = sum(1 for it in prog['items'] if it['sym'] == 'line')
    r.nt(len(syms) >= 4 and nwire >= 1 and any(it['sym'] in schem.SOURCES_V + schem.SOURCES_I for it in syms))
    for it in syms:
        r.cls(it['sym'])
        if it.get('args', {}).get('deg'):
            r.cls('deg=True')
        if it.get('reverse'):
            r.cls('reversed-source')
    r.cls(f'format={fmt}', 'via-file' if case['file'] else 'via-string')
    sch = None
    with r.lib('build'):
        sch = schem.build(prog)
        c0 = circuit_translator(sch)
    if sch is None:
        return
    c13.structural(prog, c0, r, tag='[before-saving]')
    if r.failures:
        return
    cur = sch
    for cycle in range(1, case['cycles'] + 1):
        nxt = None
        with r.lib(f'save-load[{fmt}]'):
            if case['file']:
                with tempfile.TemporaryDirectory() as d:
                    path = os.path.join(d, f'drawing.{fmt}')
                    sdl.dump(path, cur)
                    nxt = sdl.load(path)
            else:
                nxt = sdl.deserialize(sdl.serialize(cur, fmt), fmt)
        if nxt is None:
            return
        circuit = None
        with r.lib('translate-reloaded'):
            circuit = circuit_translator(nxt)
        if circuit is None:
            return
        c13.structural(prog, circuit, r, tag=f'[cycle{min(cycle, 2)}]')
        if r.failures:
            return
        cur = nxt
    r.cls(f'cycles={case["cycles"]}')


@st.composite
def save_case(draw):
    prog = draw(schem.drawing(min_symbols=3, max_symbols=6, symbol_pool=PERSIST_PASSIVE, sources_v=PERSIST_V, sources_i=PERSIST_I))
    prog['items'] = [it for it in prog['items'] if it['sym'] != 'label']
    return {'program': prog, 'fmt': 'json', 'cycles': draw(st.sampled_from([1, 2, 3])), 'file': draw(st.sampled_from([False, False, True]))}


# ---- declarative descriptions ----------------------------------------------------------------------------------------------

DIRS = {'right': (1, 0), 'left': (-1, 0), 'up': (0, 1), 'down': (0, -1)}
ENTRY_TO_SYM = {'resistor': 'resistor', 'conductance': 'conductance', 'impedance': 'impedance', 'capacitor': 'capacitor', 'inductance': 'inductance',
                'lamp': 'lamp', 'voltage_source': 'voltage_source', 'ac_voltage_source': 'ac_voltage_source', 'complex_voltage_source': 'complex_voltage_source',
                'current_source': 'current_source', 'ac_current_source': 'ac_current_source', 'complex_current_source': 'complex_current_source'}


def turtle(desc):
    """the drawing a declarative description denotes, as a program of vlib.schem - computed without schemdraw:
    the pen starts at the origin; a two-terminal entry spans length*unit in its direction from the pen (or from the end of
    the entry named by place_after) and moves the pen to its end; node and ground entries sit on the pen"""
    unit = desc.get('unit', 7)
    pen = (0.0, 0.0)
    ends = {}
    items = []
    heading = 'right'
    for e in desc['elements']:
        t = e['type']
        if e.get('place_after') is not None:
            pen = ends[e['place_after']]
        if t == 'node':
            items.append({'sym': 'label', 'at': [schem.rnd(pen[0]), schem.rnd(pen[1])], 'name': e.get('name', '')})
            ends[e.get('name', '')] = pen
            continue
        if t == 'ground':
            it = {'sym': 'ground', 'at': [schem.rnd(pen[0]), schem.rnd(pen[1])]}
            it['name'] = e.get('name', '')
            items.append(it)
            ends[e.get('name', '')] = pen
            continue
        # an entry without a direction is one drawing unit long and - as in the equivalent programmatic construction, the
        # symbol added without .right()/.up()/... - points up if it is a source or a lamp (their drawing default) and
        # otherwise continues in the direction of the two-terminal entry drawn before it (initially to the right)
        if 'direction' in e:
            heading = e['direction']
            L = e.get('length', 1) * unit
        else:
            L = unit
            if t == 'lamp' or t.endswith('_source'):
                heading = 'up'
        dx, dy = DIRS[heading]
        q = (pen[0] + dx * L, pen[1] + dy * L)
        if t == 'line':
            if 'name' in e:
                items.append({'sym': 'labeled_line', 'name': e['name'], 'p': list(pen), 'q': list(q), 'args': {}, 'reverse': False})
            else:
                items.append({'sym': 'line', 'p': list(pen), 'q': list(q)})
        else:
            args = {k: v for k, v in e.items() if k not in ('type', 'name', 'direction', 'length', 'place_after', 'reverse')}
            for k, v in list(args.items()):
                if isinstance(v, complex):
                    args[k] = [v.real, v.imag]
            items.append({'sym': ENTRY_TO_SYM[t], 'name': e['name'], 'p': list(pen), 'q': list(q), 'args': args, 'reverse': bool(e.get('reverse', False))})
        ends[e.get('name', '')] = q
        pen = q
    return {'unit': unit, 'items': items}


def to_lib_desc(desc):
    out = {'unit': desc['unit'], 'elements': []}
    for e in desc['elements']:
        ne = dict(e)
        for k, v in list(ne.items()):
            if isinstance(v, list) and len(v) == 2 and k in ('Z', 'V', 'I'):
                ne[k] = complex(*v)
        out['elements'].append(ne)
    return out


def _first_difference(a, b):
    for k, (x, y) in enumerate(zip(a.get('elements', []), b.get('elements', []))):
        if x != y:
            return f'element {k}: {x!r} -> {y!r}'
    return 'outside the element list'


def check_declarative(case, r: R):
    from CircuitCalculator.SimpleSimulation.schematic import create_schematic
    from CircuitCalculator.SimpleCircuit.DiagramTranslator import circuit_translator
    desc = case['desc']
    prog = turtle(to_lib_desc(desc))
    syms = [it for it in prog['items'] if 'p' in it and it['sym'] != 'line']
    r.nt(len(syms) >= 4 and any(it['sym'] == 'line' for it in prog['items']) and any(it['sym'] in schem.SOURCES_V + schem.SOURCES_I for it in syms))
    for e in desc['elements']:
        r.cls(f'handler={e["type"]}')
        if e.get('place_after') is not None:
            r.cls('place_after')
        if e.get('reverse'):
            r.cls('reverse')
        if e.get('length', 1) != 1:
            r.cls('length!=1')
        if e['type'] not in ('ground', 'node') and 'direction' not in e:
            r.cls('no-direction')
    circuit = None
    lib_desc = to_lib_desc(desc)
    before = copy.deepcopy(lib_desc)
    with r.lib('create_schematic'):
        sch = create_schematic(lib_desc)
        circuit = circuit_translator(sch)
    if circuit is None:
        return
    c13.structural(prog, circuit, r)
    if r.failures:
        return
    # the element list is the user's document: it still describes the same circuit after it has been drawn once
    if lib_desc != before:
        r.fail('description-consumed', f'create_schematic changed the element list it was given: {_first_difference(before, lib_desc)}')
    # the two halves of the statement meet: a drawing made from a declarative list is saved and loaded like any other
    # (only when every entry is of a persistable kind: no lamps, labelled nodes or labelled wires)
    if all(e['type'] not in ('lamp', 'node') and not (e['type'] == 'line' and 'name' in e) for e in desc['elements']):
        from CircuitCalculator.SimpleCircuit import dump_load as sdl
        r.cls('declarative-then-saved')
        back = None
        with r.lib('save-load[declarative drawing]'):
            back = circuit_translator(sdl.deserialize(sdl.serialize(sch, 'json'), 'json'))
        if back is not None:
            c13.structural(prog, back, r, tag='[declarative drawing reloaded]')
        if r.failures:
            return
    if case.get('on_axes'):
        r.cls('drawn-onto-supplied-axes')
        onax = None
        with r.lib('create_schematic[circuit_ax]'):
            import matplotlib
            matplotlib.use('Agg')
            import matplotlib.pyplot as plt
            fig, ax = plt.subplots()
            try:
                onax = circuit_translator(create_schematic(lib_desc, circuit_ax=ax))
            finally:
                plt.close(fig)
        if onax is not None:
            c13.structural(prog, onax, r, tag='[drawn onto supplied axes]')
    again = None
    with r.lib('create_schematic[same list again]'):
        again = circuit_translator(create_schematic(lib_desc))
    if again is not None:
        c13.structural(prog, again, r, tag='[second call on the same list]')


@st.composite
def declarative_case(draw):
    unit = draw(st.sampled_from([3, 7, 2, 4]))
    n = draw(st.integers(3, 8))
    names = draw(st.lists(gen.label.filter(lambda x: x not in ('', '0', 'GND')), min_size=n + 3, max_size=n + 3, unique=True))
    w0 = draw(st.sampled_from([1.0, 50.0, 1000.0, 314.1592653589793, 2.5]))
    elements, named, used_ground = [], [], False
    pos, ends = (0, 0), {}
    occupied = set()
    for k in range(n):
        roll = draw(st.sampled_from(range(12)))
        if roll == 0 and not used_ground:
            elements.append({'type': 'ground', 'name': draw(st.sampled_from(['0', 'GND', names[-1]]))})
            used_ground = True
            continue
        if roll == 1:
            nm = names[-2 - (k % 2)]
            if nm not in [e.get('name') for e in elements]:
                elements.append({'type': 'node', 'name': nm})
            continue
        if roll <= 3:
            t = 'line'
        elif roll <= 6:
            t = draw(st.sampled_from(['voltage_source', 'ac_voltage_source', 'complex_voltage_source', 'current_source', 'ac_current_source', 'complex_current_source']))
        else:
            t = draw(st.sampled_from(['resistor', 'resistor', 'conductance', 'impedance', 'capacitor', 'inductance', 'lamp']))
        e = {'type': t, 'direction': draw(st.sampled_from(list(DIRS)))}
        if t != 'line' or draw(st.sampled_from([False, False, True])):
            e['name'] = names[k]
        if t != 'line':
            sym = ENTRY_TO_SYM[t]
            e.update(draw(schem.symbol_args(sym, w0)))
            if sym in schem.SOURCES_V + schem.SOURCES_I:
                e['reverse'] = draw(st.booleans())
        if draw(st.sampled_from([False, False, True])):
            e['length'] = draw(st.sampled_from([2, 1.5, 3]))
        elif draw(st.integers(0, 5)) == 0:
            del e['direction']          # drawing default: straight on (sources and lamps: up)
        if named and draw(st.sampled_from([False, False, False, True])):
            e['place_after'] = draw(st.sampled_from(named))
        elements.append(e)
        if 'name' in e:
            named.append(e['name'])
    if not used_ground:
        elements.insert(draw(st.integers(0, len(elements))), {'type': 'ground', 'name': '0'})
    # a ground placed first sits at the origin; place_after must refer to an earlier entry: guaranteed by construction
    return {'desc': {'unit': unit, 'elements': elements}, 'on_axes': draw(st.sampled_from([False, False, False, True]))}


TESTS = [
    Test('save-reload', check_save_reload, strategy=save_case, quick=300, thorough=5000),
    Test('declarative', check_declarative, strategy=declarative_case, quick=500, thorough=8000),
]
