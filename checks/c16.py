"""C16 - network simplifications are electrical identities."""
from __future__ import annotations
import copy
from hypothesis import strategies as st
from vlib.core import Test, R, canon
from vlib import gen, refsolve as rs, tol

PROPERTY = 'C16'
LEVEL = 'exploration'
RULE = ('well-posed random networks of C01 augmented by node splitting with shorts (chains, stars, parallel shorts, loops, shorts at '
        'the reference in either orientation) and opens x operation (remove opens / contract shorts / remove element / switch '
        'reference / remove ideal current sources / remove ideal voltage sources / passive network) x exemption list x element '
        'x new reference. Oracle: structural quotient isomorphism (union-find over the original\'s non-exempt shorts), input '
        'and exemption list deep-unchanged, exact reference solution / port impedance of the original against the library\'s '
        'solution / port impedance of the simplified network. Non-trivial = >= 2 shorts sharing a node, or a short touching the '
        'reference, or a non-empty exemption list that matters; distinct = case hash.')
ASSUMPTIONS = ['exemption lists contain sources and shorts only', 'operations that do not contract shorts are judged only when the '
               'network is well posed with its shorts in place (no parallel shorts)', 'condition guard 1e8']

SRC = ('vsrc', 'isrc', 'linv', 'lini')
OPS = ['remove_open', 'remove_short', 'remove_element', 'switch_ground', 'remove_ideal_current', 'remove_ideal_voltage', 'passive']


def solver():
    from CircuitCalculator.Network.NodalAnalysis.bias_point_analysis import nodal_analysis_bias_point_solver
    return nodal_analysis_bias_point_solver


def net_snapshot(N):
    return [(b.node1, b.node2, b.element) for b in N.branches], N.node_zero_label


def expected_spec(net, op, keep_ids, elem):
    """(spec E after the operation but before any contraction, ids that must disappear, ids allowed to disappear,
        contract?: whether non-exempt zero-impedance branches are contracted)"""
    br = net['branches']
    if op == 'remove_open':
        E = [b for b in br if b['kind'] != 'open']
        return {'ref': net['ref'], 'branches': E}, {b['id'] for b in br if b['kind'] == 'open'}, False
    if op == 'remove_short':
        return {'ref': net['ref'], 'branches': list(br)}, set(), True
    if op == 'remove_element':
        return {'ref': net['ref'], 'branches': [b for b in br if b['id'] != elem]}, {elem}, False
    if op == 'switch_ground':
        return {'ref': net['ref'], 'branches': list(br)}, set(), False
    dead_i = lambda b: rs.deactivate(b) if (b['kind'] in ('isrc', 'lini', 'linv') and b['id'] not in keep_ids) else b
    dead_v = lambda b: rs.deactivate(b) if (b['kind'] in ('vsrc', 'linv', 'lini') and b['id'] not in keep_ids) else b
    if op == 'remove_ideal_current':
        E = [dead_i(b) for b in br]
        gone = {b['id'] for b in E if b['kind'] == 'open'}
        return {'ref': net['ref'], 'branches': [b for b in E if b['kind'] != 'open']}, gone, False
    if op == 'remove_ideal_voltage':
        return {'ref': net['ref'], 'branches': [dead_v(b) for b in br]}, set(), True
    if op == 'passive':
        E = [dead_v(dead_i(b)) for b in br]
        gone = {b['id'] for b in E if b['kind'] == 'open'}
        return {'ref': net['ref'], 'branches': [b for b in E if b['kind'] != 'open']}, gone, True
    raise ValueError(op)


def apply(op, N, keep, elem, new_ref):
    from CircuitCalculator.Network import transformers as trf
    if op == 'remove_open':
        return trf.remove_open_circuit_elements(N)
    if op == 'remove_short':
        return trf.remove_short_circuit_elements(N, keep=keep)
    if op == 'remove_element':
        return trf.remove_element(N, elem)
    if op == 'switch_ground':
        return trf.switch_ground_node(N, new_ref)
    if op == 'remove_ideal_current':
        return trf.remove_ideal_current_sources(N, keep=keep)
    if op == 'remove_ideal_voltage':
        return trf.remove_ideal_voltage_sources(N, keep=keep)
    if op == 'passive':
        return trf.passive_network(N, keep=keep)
    raise ValueError(op)


def zero_impedance(b) -> bool:
    a, bb, c, _ = rs.law(b)
    return (not bb) and (not c)


def check_simplification(case, r: R):
    net, op = case['net'], case['op']
    ids = [b['id'] for b in net['branches']]
    nodes = rs.nodes_of(net)
    keepable = [b['id'] for b in net['branches'] if b['kind'] in SRC + ('short',)]
    keep_ids = {keepable[i % len(keepable)] for i in case['keep']} if keepable and op in ('remove_short', 'remove_ideal_current', 'remove_ideal_voltage', 'passive') else set()
    elem = ids[case['elem'] % len(ids)]
    new_ref = nodes[case['new_ref'] % len(nodes)]
    E, must_go, contract = expected_spec(net, op, keep_ids, elem)
    ref_label = new_ref if op == 'switch_ground' else net['ref']
    E['ref'] = ref_label
    # ---- domain: the expected circuit must be well posed (after contraction where the operation contracts)
    if contract:
        Ec, cls = rs.contract_shorts(E, keep_ids=keep_ids)
    else:
        Ec, cls = E, {n: n for n in rs.nodes_of(E)}
    if not Ec['branches']:
        return r.reject('nothing left')
    if ref_label not in {x for b in Ec['branches'] for x in (b['n1'], b['n2'])}:
        return r.reject('reference node vanishes')
    ref = rs.solve(Ec)
    if ref is None:
        return r.reject('ill-posed')
    if not rs.well_conditioned(Ec, tol.KAPPA_MAX):
        return r.reject('ill-conditioned')
    S_phi, S_I = tol.scales(Ec, ref)
    # when the operation removes (nearly) all sources the expected solution is ~0: take the scale of the original
    # network with its sources active as a floor, so that rounding residue is not mistaken for a change
    full, _ = rs.contract_shorts({'ref': ref_label, 'branches': list(net['branches'])})
    fref = rs.solve(full)
    if fref is not None:
        F_phi, F_I = tol.scales(full, fref)
        S_phi = max(S_phi, F_phi)
        fmax = max(F_I.values()) if F_I else 0.0
        S_I = {i: max(v, F_I.get(i, fmax)) for i, v in S_I.items()}
    # ---- classes / non-triviality
    shorts = [b for b in net['branches'] if b['kind'] == 'short']
    deg = {}
    for b in shorts:
        for n in (b['n1'], b['n2']):
            deg[n] = deg.get(n, 0) + 1
    r.cls(f'op={op}')
    if any(v >= 2 for v in deg.values()):
        r.cls('shorts-share-node')
    if any(v >= 3 for v in deg.values()):
        r.cls('short-star')
    if any(net['ref'] in (b['n1'], b['n2']) for b in shorts):
        r.cls('short-at-reference')
    pairs = [frozenset((b['n1'], b['n2'])) for b in shorts]
    if len(set(pairs)) < len(pairs):
        r.cls('parallel-shorts')
    if keep_ids:
        r.cls('keep-nonempty')
    matters = bool(keep_ids) and op != 'remove_short' or bool(keep_ids & {b['id'] for b in shorts})
    r.nt((contract and (any(v >= 2 for v in deg.values()) or any(net['ref'] in (b['n1'], b['n2']) for b in shorts))) or matters
         or (not contract and len(net['branches']) >= 4))
    # ---- run the operation
    N = res = None
    with r.lib('build'):
        N = rs.lib_network(net)
    if N is None:
        return
    keep = [N[i].element for i in sorted(keep_ids)]
    if case.get('twice'):
        # (shares the 'twice' draw) equal copies instead of the very objects: elements are frozen value objects
        import copy as _copy
        keep = [_copy.copy(e) for e in keep]
        r.cls('exemption-list-of-equal-copies')
    keep_before = list(keep)
    before = net_snapshot(N)
    with r.lib(f'{op}'):
        res = apply(op, N, keep, elem, new_ref)
        if case.get('twice'):                       # same argument objects reused for a second call
            res2 = apply(op, N, keep, elem, new_ref)
            if net_snapshot(res2) != net_snapshot(res):
                r.fail('repeat-differs', op)
    if net_snapshot(N) != before:
        r.fail('input-network-modified', op)
    if keep != keep_before:
        r.fail('exemption-list-modified', op)
    if res is None:
        return
    if res.node_zero_label != ref_label:
        r.fail('reference-label', f'{res.node_zero_label!r}, expected {ref_label!r}')
    # ---- structure
    Eb = {b['id']: b for b in E['branches']}
    orig = {b['id']: b for b in net['branches']}
    got_ids = [b.id for b in res.branches]
    if len(set(got_ids)) != len(got_ids):
        r.fail('duplicate-branches', str(got_ids))
    for zb in res.branches:
        if zb.node1 == zb.node2:
            r.fail('self-loop-left', f'{zb.id!r} connects {zb.node1!r} to itself after {op}')
    for i in got_ids:
        if i not in Eb:
            r.fail('branch-should-be-gone', f'{i!r} ({orig[i]["kind"] if i in orig else "?"}) survived {op}')
    for i, b in Eb.items():
        if i in got_ids:
            continue
        allowed = contract and ((zero_impedance(b) and i not in keep_ids) or cls[b['n1']] == cls[b['n2']])
        if not allowed:
            r.fail('branch-lost', f'{i!r} ({b["kind"]}) disappeared in {op}')
    name_cls = {}
    for zb in res.branches:
        if zb.id not in Eb:
            continue
        eb = Eb[zb.id]
        for pos, (rn, en) in enumerate(((zb.node1, eb['n1']), (zb.node2, eb['n2']))):
            c = cls.get(en, en)
            if not contract and rn != en:
                r.fail('terminal-renamed', f'{zb.id!r}: terminal {pos} {en!r} -> {rn!r} in {op}')
            if contract and cls.get(rn, None) != c:
                r.fail('terminal-left-its-node', f'{zb.id!r}: terminal {pos} was {en!r}, now {rn!r} which belongs to another node')
            if name_cls.setdefault(rn, c) != c:
                r.fail('node-name-ambiguous', f'{rn!r} stands for two different nodes')
        # element record
        ob = orig[zb.id]
        with r.lib('element-record'):
            if eb is ob or eb == ob:
                if zb.element != N[zb.id].element:
                    r.fail('element-record-changed', f'{zb.id!r} ({ob["kind"]}) by {op}')
            else:
                from CircuitCalculator.Network.elements import is_active
                y = rs.admittance_of(eb)
                good = (zb.element.Z == 0) if y is None else ((zb.element.Y == 0) if not y else tol.close(zb.element.Y, complex(y), abs(complex(y)), 1e-12))
                if not good or is_active(zb.element) or zb.element.name != zb.id:
                    r.fail('zeroed-source-record', f'{zb.id!r} ({ob["kind"]}): Z={zb.element.Z!r} Y={zb.element.Y!r}')
    if contract:
        # two names of the result that denote the same original node must still be joined by shorts in the result
        uf = rs.UnionFind()
        for zb in res.branches:
            uf.find(zb.node1); uf.find(zb.node2)
            if zb.id in Eb and zero_impedance(Eb[zb.id]) and zb.id not in keep_ids:
                uf.union(zb.node1, zb.node2)
        names = list(name_cls)
        for i, a in enumerate(names):
            for b in names[i + 1:]:
                if name_cls[a] == name_cls[b] and uf.find(a) != uf.find(b):
                    r.fail('node-split', f'{a!r} and {b!r} were one node and are no longer connected')
    if r.failures:
        return
    # ---- electrical identity: library solution of the simplified network vs exact solution of the original
    # the simplified network must itself be solvable: a stale short left behind next to an exempted one forms a
    # zero-impedance loop whose individual currents are indeterminate (exactly as in the original) - not judged
    res_spec = {'ref': ref_label, 'branches': [dict(Eb[zb.id], n1=zb.node1, n2=zb.node2) for zb in res.branches]}
    rres = rs.solve(res_spec)
    if rres is None:
        r.cls('result-has-zero-impedance-loop')
        return
    # the library solves the network it returned: its rounding residue scales with the sources and immittances that
    # are still in it (a kept current source circulating through kept shorts past a shorted load), also where the
    # fully contracted expectation is identically zero and the original network - being ill posed - offers no floor
    R_phi, R_I = tol.scales(res_spec, rres)
    S_phi = max(S_phi, R_phi)
    S_I = {i: max(v, R_I.get(i, 0.0)) for i, v in S_I.items()}
    sol = None
    with r.lib('solve-simplified'):
        sol = solver()(res)
    if sol is None:
        return
    exp = rs.reports(Ec, ref)
    for zb in res.branches:
        eb = Eb[zb.id]
        c1, c2 = cls.get(eb['n1'], eb['n1']), cls.get(eb['n2'], eb['n2'])
        if c1 not in ref['phi'] or c2 not in ref['phi']:
            continue
        Vx = ref['phi'][c1] - ref['phi'][c2]
        Ix = exp[zb.id]['I'] if zb.id in exp else None
        with r.lib('query-simplified'):
            V = sol.get_voltage(zb.id)
            if not tol.close(V, Vx, S_phi):
                r.fail('voltage-changed', f'{zb.id!r} after {op}: lib {V} exact {complex(Vx)}')
            if Ix is not None:
                I = sol.get_current(zb.id)
                if not tol.close(I, Ix, S_I[zb.id]):
                    r.fail('current-changed', f'{zb.id!r} ({eb["kind"]}) after {op}: lib {I} exact {complex(Ix)}')
    for rn, c in name_cls.items():
        if c not in ref['phi']:
            continue
        px = ref['phi'][c]
        with r.lib('query-simplified'):
            p = sol.get_potential(rn)
            if not tol.close(p, px, S_phi):
                r.fail('potential-changed', f'node {rn!r} after {op}: lib {p} exact {complex(px)}')
    # ---- port impedance of the passive network
    if op == 'passive' and not keep_ids and len(name_cls) >= 2:
        from CircuitCalculator.Network.NodalAnalysis.node_analysis import open_circuit_impedance
        names = sorted(name_cls)
        a, b = names[case['port'][0] % len(names)], names[case['port'][1] % len(names)]
        if name_cls[a] != name_cls[b]:
            # a, b are names of the result; translate to original nodes of the same class
            inv = {}
            for n in nodes:
                inv.setdefault(cls.get(n, n), n)
            zx = rs.port_impedance(net, inv[name_cls[a]], inv[name_cls[b]])
            if zx is not None and not isinstance(zx, str) and zx:
                r.cls('port-impedance-of-passive-network')
                with r.lib('port-impedance'):
                    z = open_circuit_impedance(res, a, b)
                    if not tol.close(z, zx, abs(complex(zx)), 1e-6):
                        r.fail('passive-network-impedance', f'{a!r},{b!r}: lib {z} exact {complex(zx)}')


@st.composite
def augmented(draw):
    net = draw(gen.network(nmin=2, nmax=5, max_branches=8, min_sources=1))
    br = net['branches']
    used = {b['id'] for b in br} | set(rs.nodes_of(net))
    fresh = [l for l in draw(gen.labels(14)) if l not in used]
    nshort = draw(st.integers(0, 4))
    for _ in range(nshort):
        if len(fresh) < 2:
            break
        nodes = rs.nodes_of(net)
        mode = draw(st.integers(0, 5))
        shorts = [b for b in br if b['kind'] == 'short']
        if mode == 0 and shorts:                                   # parallel short / loop closing
            s0 = draw(st.sampled_from(shorts))
            a, b = (s0['n1'], s0['n2']) if draw(st.booleans()) else (s0['n2'], s0['n1'])
            br.append({'id': fresh.pop(), 'n1': a, 'n2': b, 'kind': 'short', 'p': {}})
            continue
        v = net['ref'] if mode == 1 else draw(st.sampled_from(nodes))
        v2 = fresh.pop()
        touching = [(b, k) for b in br for k in ('n1', 'n2') if b[k] == v]
        moved = False
        for b, k in touching:                                      # split v: move some terminals to the new node
            if draw(st.booleans()):
                b[k] = v2
                moved = True
        if not moved and touching:
            b, k = touching[0]
            b[k] = v2
        a, b_ = (v, v2) if draw(st.booleans()) else (v2, v)
        br.insert(draw(st.integers(0, len(br))), {'id': fresh.pop(), 'n1': a, 'n2': b_, 'kind': 'short', 'p': {}})
    nopen = draw(st.integers(0, 2))
    for _ in range(nopen):
        if not fresh:
            break
        nodes = rs.nodes_of(net)
        a = draw(st.sampled_from(nodes))
        b = draw(st.sampled_from(nodes))
        if a != b:
            br.insert(draw(st.integers(0, len(br))), {'id': fresh.pop(), 'n1': a, 'n2': b, 'kind': 'open', 'p': {}})
    return net


@st.composite
def simplification_case(draw):
    return {'net': draw(augmented()), 'op': draw(st.sampled_from(OPS + ['remove_short', 'passive'])),
            'keep': draw(st.lists(st.integers(0, 9), max_size=3)), 'elem': draw(st.integers(0, 20)), 'new_ref': draw(st.integers(0, 20)),
            'port': [draw(st.integers(0, 9)), draw(st.integers(0, 9))], 'twice': draw(st.booleans())}


TESTS = [
    Test('simplification', check_simplification, strategy=simplification_case, quick=5000, thorough=80000),
]
