"""C19 - malformed circuits are rejected, not reinterpreted (fault enumeration)."""
from __future__ import annotations
import copy, itertools, math
from hypothesis import strategies as st
from vlib.core import Test, R, canon
from vlib import gen

PROPERTY = 'C19'
LEVEL = 'fault_enumeration'
RULE = ('complete enumeration of (fault class x API x base size 1-4 x position): duplicate id (every pair), reference label touching '
        'no element, second ground, unknown element type, every required field missing, negative value of every sign-checked '
        'parameter of every component constructor (direct and through the description loader), unknown waveform, unknown ids '
        'queried on every solution kind; each faulted case has an un-faulted twin (and 0 / -0.0 boundary twins) that must be '
        'accepted and stored unaltered. Values of the sign faults additionally random (Hypothesis). Non-trivial = fault not at '
        'position 0 of a base with >= 2 items, or a non-default parameter/route; distinct = case hash.')
ASSUMPTIONS = ['the contract is "raises": any exception type counts as rejection',
               'a circuit whose ground component names an unused node, or a periodic source with an unknown waveform, must be '
               'rejected at the latest when it is analysed (its constructor has no access to the information)']


def snap(x):
    return copy.deepcopy(x)


# ---------------------------------------------------------------------------------------------------------------
# T1 network faults

def base_network_entries(n):
    """a valid chain/loop description of n entries touching node '0' (loader format)"""
    kinds = [('real_voltage_source', {'V': 5.123456789}), ('resistor', {'R': 10.987654321}), ('conductor', {'G': 0.512345678}),
             ('impedance', {'Z': {'real': 3, 'imag': 4}})]
    out = []
    for i in range(n):
        k, v = kinds[i % len(kinds)]
        e = {'type': k, 'id': f'E{i}', 'N1': str(i), 'N2': str((i + 1) % max(n, 2)) if i + 1 < n else '0'}
        if n == 1:
            e['N1'], e['N2'] = '1', '0'
        e.update(v)
        out.append(e)
    return out


def network_cases(tier):
    for n in range(1, 5):
        yield {'api': 'load', 'n': n, 'fault': None}
        yield {'api': 'ctor', 'n': n, 'fault': None}
        for api in ('load', 'ctor'):
            for i, j in itertools.combinations(range(n), 2):
                yield {'api': api, 'n': n, 'fault': 'dup-id', 'i': i, 'j': j}
            yield {'api': api, 'n': n, 'fault': 'bad-ref'}
        for pos in range(n):
            yield {'api': 'load', 'n': n, 'fault': 'unknown-type', 'pos': pos}
            yield {'api': 'load', 'n': n, 'fault': 'unknown-type', 'pos': pos, 'bare': True}
            for fld in ('type', 'id', 'N1', 'N2', 'value'):
                yield {'api': 'load', 'n': n, 'fault': 'missing', 'pos': pos, 'field': fld}


def check_network_fault(case, r: R):
    from CircuitCalculator.Network.loaders import load_network
    from CircuitCalculator.Network.network import Network, Branch
    from CircuitCalculator.Network import elements as elm
    n, fault = case['n'], case['fault']
    entries = base_network_entries(n)
    r.cls(f'fault={fault}', f'api={case["api"]}')
    r.nt(n >= 2 and (case.get('pos', case.get('j', 1)) != 0))
    if fault == 'dup-id':
        entries[case['j']]['id'] = entries[case['i']]['id']
    elif fault == 'bad-ref':
        for e in entries:                      # nobody touches the reference label any more
            e['N1'] = 'x' + e['N1']
            e['N2'] = 'x' + e['N2']
    elif fault == 'unknown-type':
        entries[case['pos']]['type'] = 'memristor'
        if case.get('bare'):                   # no value fields at all: would fit a parameterless element kind
            entries[case['pos']] = {k: v for k, v in entries[case['pos']].items() if k in ('type', 'id', 'N1', 'N2')}
    elif fault == 'missing':
        e = entries[case['pos']]
        fld = case['field']
        if fld == 'value':
            fld = [k for k in e if k not in ('type', 'id', 'N1', 'N2')][0]
        del e[fld]

    def build():
        if case['api'] == 'load':
            return load_network(snap(entries))
        mk = {'real_voltage_source': lambda e: elm.voltage_source(e['id'], e['V']), 'resistor': lambda e: elm.resistor(e['id'], e['R']),
              'conductor': lambda e: elm.conductor(e['id'], e['G']), 'impedance': lambda e: elm.impedance(e['id'], complex(3, 4))}
        return Network([Branch(e['N1'], e['N2'], mk[e['type']](e)) for e in entries], node_zero_label='0')

    if fault is None:
        net = None
        with r.lib('valid-network-rejected'):
            net = build()
        if net is not None:
            got = [(b.id, b.node1, b.node2) for b in net.branches]
            if got != [(e['id'], e['N1'], e['N2']) for e in entries] or net.node_zero_label != '0':
                r.fail('stored-altered', f'{got}')
            for e, b in zip(entries, net.branches):
                want = {'real_voltage_source': ('V', 5.123456789), 'resistor': ('Z', 10.987654321), 'conductor': ('Y', 0.512345678), 'impedance': ('Z', complex(3, 4))}[e['type']]
                if getattr(b.element, want[0]) != want[1]:
                    r.fail('stored-altered', f'{e["id"]}: {want[0]} stored {getattr(b.element, want[0])!r} given {want[1]!r}')
        return
    r.expect_raises(f'accepted:{fault}[{case["api"]}]', build)


# ---------------------------------------------------------------------------------------------------------------
# T2 sign checks of the component constructors

# constructor -> (positional/keyword arguments of a valid call, sign-checked parameters)
CONSTRUCTORS = {
    'resistor': ({'R': 10.123456789}, ['R']),
    'conductance': ({'G': 0.123456789}, ['G']),
    'capacitor': ({'C': 1.23456789e-6}, ['C']),
    'inductance': ({'L': 1.23456789e-3}, ['L']),
    'dc_voltage_source': ({'V': 5.0, 'R': 1.0}, ['R']),
    'ac_voltage_source': ({'V': 5.0, 'R': 1.0, 'w': 100.0, 'phi': 0.5}, ['R', 'w']),
    'periodic_voltage_source': ({'wavetype': 'rect', 'V': 5.0, 'w': 100.0, 'phi': 0.5, 'R': 1.0}, ['R', 'w']),
    'dc_current_source': ({'I': 2.0, 'G': 0.1}, ['G']),
    'ac_current_source': ({'I': 2.0, 'G': 0.1, 'w': 100.0, 'phi': 0.5}, ['G', 'w']),
    'periodic_current_source': ({'wavetype': 'saw', 'I': 2.0, 'w': 100.0, 'phi': 0.5, 'G': 0.1}, ['G', 'w']),
    'lamp': ({'P': 40.0, 'V_ref': 12.0}, ['P', 'V_ref']),
    'resistive_load': ({'P': 40.0, 'V_ref': 12.0}, ['P', 'V_ref']),
}
LOADER_KINDS = ['resistor', 'conductance', 'dc_voltage_source', 'ac_voltage_source', 'dc_current_source', 'ac_current_source']
NEG = [-1.0, -1e-9, -1e6, -5, float('-inf')]


def constructor_cases(tier):
    for name, (args, checked) in CONSTRUCTORS.items():
        routes = ['direct'] + (['loader'] if name in LOADER_KINDS else [])
        for route in routes:
            yield {'ctor': name, 'route': route, 'param': None, 'value': None}
            for p in checked:
                for v in NEG:
                    yield {'ctor': name, 'route': route, 'param': p, 'value': v}
                for v in (0.0, -0.0, 0):
                    yield {'ctor': name, 'route': route, 'param': p, 'value': v, 'twin': True}


def check_constructor(case, r: R):
    from CircuitCalculator.Circuit import components as ccp
    from CircuitCalculator.Circuit.dump_load import generate_component
    name = case['ctor']
    args, checked = CONSTRUCTORS[name]
    args = dict(args)
    p, v = case['param'], case['value']
    if p is not None:
        args[p] = v
    r.cls(f'ctor={name}', f'route={case["route"]}', 'twin' if (p is None or case.get('twin')) else 'fault=negative')
    r.nt(p is not None)

    def build():
        if case['route'] == 'direct':
            return getattr(ccp, name)(id='X1', nodes=('a', 'b'), **args)
        return generate_component({'type': name, 'id': 'X1', 'nodes': ('a', 'b'), 'value': dict(args)})

    if p is None or case.get('twin'):
        c = None
        with r.lib(f'valid-component-rejected[{name}]'):
            c = build()
        if c is not None:
            if c.id != 'X1' or tuple(c.nodes) != ('a', 'b') or c.type != name:
                r.fail('stored-altered', f'{c}')
            for k, val in args.items():
                if k in c.value and c.value[k] != val:
                    r.fail('stored-altered', f'{name}.{k}: given {val!r} stored {c.value[k]!r}')
                if k not in c.value:
                    r.fail('stored-altered', f'{name}: parameter {k} not stored')
        return
    r.expect_raises(f'accepted:negative-{p}[{name},{case["route"]}]', build)


@st.composite
def random_sign_case(draw):
    name = draw(st.sampled_from(list(CONSTRUCTORS)))
    p = draw(st.sampled_from(CONSTRUCTORS[name][1]))
    route = draw(st.sampled_from(['direct'] + (['loader'] if name in LOADER_KINDS else [])))
    v = -draw(gen.pos_real(-9, 9)) if draw(st.booleans()) else draw(st.floats(max_value=-1e-300, min_value=-1e300, allow_nan=False))
    return {'ctor': name, 'route': route, 'param': p, 'value': v}


# ---------------------------------------------------------------------------------------------------------------
# T3 circuit faults

def base_components(n, with_ground_at=None):
    """description entries (loader format) of a valid circuit of n two-terminal components"""
    protos = [('dc_voltage_source', {'V': 5.0}), ('resistor', {'R': 10.0}), ('conductance', {'G': 0.2}), ('ac_current_source', {'I': 1.0, 'w': 10.0})]
    out = []
    for i in range(n):
        t, v = protos[i % len(protos)]
        out.append({'type': t, 'id': f'K{i}', 'nodes': (str(i % 2), str((i + 1) % 2)), 'value': dict(v)})
    return out


def circuit_cases(tier):
    for n in range(1, 5):
        for api in ('ctor', 'loader'):
            yield {'api': api, 'n': n, 'fault': None}
            for i, j in itertools.combinations(range(n), 2):
                yield {'api': api, 'n': n, 'fault': 'dup-id', 'i': i, 'j': j}
        for g1 in range(n + 1):
            for j in range(n):
                yield {'api': 'ctor', 'n': n, 'fault': 'ground-dup-id', 'ground': g1, 'j': j}
            yield {'api': 'ctor', 'n': n, 'fault': None, 'ground': g1}
            for analysis in ('dc', 'harmonic', 'off-harmonic'):
                yield {'api': 'ctor', 'n': n, 'fault': 'dangling-ground', 'ground': g1, 'analysis': analysis}
            for g2 in range(g1, n + 1):
                yield {'api': 'ctor', 'n': n, 'fault': 'second-ground', 'ground': g1, 'ground2': g2}
        for pos in range(n):
            yield {'api': 'loader', 'n': n, 'fault': 'unknown-type', 'pos': pos}
            yield {'api': 'loader', 'n': n, 'fault': 'negative', 'pos': pos}
            for analysis in ('dc', 'harmonic', 'off-harmonic', 'second-harmonic'):
                yield {'api': 'loader', 'n': n, 'fault': 'unknown-waveform', 'pos': pos, 'analysis': analysis}
            for fld in ('id', 'type', 'value', 'nodes', 'value-key'):
                yield {'api': 'loader', 'n': n, 'fault': 'missing', 'pos': pos, 'field': fld}


def check_circuit_fault(case, r: R):
    from CircuitCalculator.Circuit import components as ccp
    from CircuitCalculator.Circuit.circuit import Circuit
    from CircuitCalculator.Circuit.dump_load import undictify_circuit, generate_component
    from CircuitCalculator.Circuit.solution import DCSolution
    n, fault = case['n'], case['fault']
    entries = base_components(n)
    r.cls(f'fault={fault}', f'api={case["api"]}')
    r.nt(n >= 2 and case.get('pos', case.get('j', case.get('ground', 1))) != 0)
    analyse = False
    if fault == 'dup-id':
        entries[case['j']]['id'] = entries[case['i']]['id']
    elif fault == 'unknown-type':
        entries[case['pos']]['type'] = 'memristor'
    elif fault == 'negative':
        e = entries[case['pos']]
        k = [k for k in e['value'] if k in ('R', 'G', 'w')]
        if k:
            e['value'][k[0]] = -abs(e['value'][k[0]])
        else:
            e['value']['R' if 'V' in e['value'] else 'G'] = -1.0
    elif fault == 'missing':
        e = entries[case['pos']]
        if case['field'] == 'value-key':
            del e['value'][sorted(e['value'])[0]]
        else:
            del e[case['field']]

    def components():
        comps = [generate_component(snap(e)) for e in entries]
        if fault == 'unknown-waveform':
            comps[case['pos']] = ccp.periodic_voltage_source(id=entries[case['pos']]['id'], nodes=entries[case['pos']]['nodes'], wavetype='sinc', V=1.0, w=10.0)
        if 'ground' in case:
            node = 'nowhere' if fault == 'dangling-ground' else '0'
            gid = entries[case['j']]['id'] if fault == 'ground-dup-id' else 'gnd'
            comps.insert(case['ground'], ccp.ground(id=gid, nodes=(node,)))
        if fault == 'second-ground':
            comps.insert(case['ground2'] + 1, ccp.ground(id='gnd2', nodes=('1',)))
        return comps

    def build():
        if case['api'] == 'loader' and fault != 'unknown-waveform':
            c = undictify_circuit({'components': snap(entries)})
        else:
            c = Circuit(components())
        if fault in ('dangling-ground', 'unknown-waveform'):
            # rejected at the latest when analysed - at whatever frequency the first analysis happens to be
            from CircuitCalculator.Circuit.solution import ComplexSolution
            {'dc': lambda: DCSolution(c), 'harmonic': lambda: ComplexSolution(c, w=10.0), 'off-harmonic': lambda: ComplexSolution(c, w=13.7),
             'second-harmonic': lambda: ComplexSolution(c, w=20.0)}[case.get('analysis', 'dc')]()
        return c

    if fault is None:
        c = None
        with r.lib('valid-circuit-rejected'):
            c = build()
        if c is not None:
            want = [(e['type'], e['id'], tuple(e['nodes'])) for e in entries]
            got = [(x.type, x.id, tuple(x.nodes)) for x in c.components if x.type != 'ground']
            if got != want:
                r.fail('stored-altered', f'{got} != {want}')
            exp_ground = '0' if 'ground' in case else entries[0]['nodes'][0]
            if c.ground_node != exp_ground:
                r.fail('stored-altered', f'ground node {c.ground_node!r}, expected {exp_ground!r}')
        return
    r.expect_raises(f'accepted:{fault}[{case["api"]}]', build)


# ---------------------------------------------------------------------------------------------------------------
# T4 declarative front end

def schematic_cases(tier):
    for n in (1, 2, 3):
        yield {'n': n, 'fault': None}
        for pos in range(n):
            yield {'n': n, 'fault': 'unknown-type', 'pos': pos}
            yield {'n': n, 'fault': 'missing-type', 'pos': pos}
            yield {'n': n, 'fault': 'missing-argument', 'pos': pos}
            yield {'n': n, 'fault': 'negative', 'pos': pos}


def check_schematic_fault(case, r: R):
    from CircuitCalculator.SimpleSimulation.schematic import create_schematic
    n, fault = case['n'], case['fault']
    els = [{'type': 'voltage_source', 'name': 'V1', 'V': 5, 'direction': 'up'},
           {'type': 'resistor', 'name': 'R1', 'R': 10, 'direction': 'right'},
           {'type': 'resistor', 'name': 'R2', 'R': 20, 'direction': 'down'}][:n]
    r.cls(f'fault={fault}')
    r.nt(case.get('pos', 0) != 0)
    if fault == 'unknown-type':
        els[case['pos']]['type'] = 'memristor'
    elif fault == 'missing-type':
        del els[case['pos']]['type']
    elif fault == 'missing-argument':
        e = els[case['pos']]
        del e['V' if 'V' in e else 'R']
    elif fault == 'negative':
        e = els[case['pos']]
        if 'R' in e:
            e['R'] = -e['R']
        else:
            return r.reject('no sign-checked parameter at this position')
    data = {'unit': 3, 'elements': els, 'solution': {'type': 'dc'}}
    if fault is None:
        with r.lib('valid-schematic-rejected'):
            s = create_schematic(snap(data))
            names = [e.name for e in s.elements if getattr(e, 'name', '')]
            if names[:n] != [e['name'] for e in els]:
                r.fail('stored-altered', f'{names}')
        return
    r.expect_raises(f'accepted:{fault}[create_schematic]', create_schematic, snap(data))


# ---------------------------------------------------------------------------------------------------------------
# T5 unknown identifiers queried on every solution kind

def query_cases(tier):
    for kind in ('network', 'dc', 'complex', 'time', 'frequency', 'transient'):
        for method in ('get_voltage', 'get_current', 'get_power', 'get_potential'):
            for ident in ('nope', '', 'R1 ', 'r1', 'gnd', '7'):
                yield {'kind': kind, 'method': method, 'id': ident}
            yield {'kind': kind, 'method': method, 'id': 'R1', 'valid': True}


def check_query(case, r: R):
    import numpy as np
    from CircuitCalculator.Circuit import components as ccp
    from CircuitCalculator.Circuit.circuit import Circuit, transform_circuit
    from CircuitCalculator.Circuit import solution as sol
    from CircuitCalculator.Network.NodalAnalysis.bias_point_analysis import nodal_analysis_bias_point_solver
    kind, method, ident = case['kind'], case['method'], case['id']
    c = Circuit([ccp.dc_voltage_source('V1', ('1', '0'), V=5.0), ccp.resistor('R1', ('1', '2'), R=10.0),
                 ccp.capacitor('C1', ('2', '0'), C=1e-3), ccp.resistor('R2', ('2', '0'), R=20.0), ccp.ground(nodes=('0',))])
    r.cls(f'kind={kind}', method)
    r.nt(True)
    s = None
    with r.lib(f'construct[{kind}]'):
        if kind == 'network':
            s = nodal_analysis_bias_point_solver(transform_circuit(c, w=0))
        elif kind == 'dc':
            s = sol.DCSolution(c)
        elif kind == 'complex':
            s = sol.ComplexSolution(c, w=3.0)
        elif kind == 'time':
            s = sol.TimeDomainSolution(c, w_max=10.0)
        elif kind == 'frequency':
            s = sol.FrequencyDomainSolution(c, w_max=10.0)
        else:
            t = np.linspace(0, 0.1, 50)
            s = sol.TransientSolution(c, tin=t, input={'V1': lambda t: 5.0 * np.ones(t.shape)})
    if s is None:
        return
    if case.get('valid'):
        arg = '2' if method == 'get_potential' else 'R1'
        with r.lib(f'valid-query-rejected[{kind}.{method}]'):
            v = getattr(s, method)(arg)
            if callable(v):
                v(np.array([0.0, 0.1]))
        return
    # an identifier of the other namespace is unknown too: element ids are not node ids and vice versa
    def q():
        v = getattr(s, method)(ident)
        if callable(v):
            v = v(np.array([0.0, 0.1]))
        return v
    r.expect_raises(f'unknown-id-answered[{kind}.{method}]', q)


@st.composite
def random_query_case(draw):
    return {'kind': draw(st.sampled_from(['network', 'dc', 'complex', 'time', 'frequency', 'transient'])),
            'method': draw(st.sampled_from(['get_voltage', 'get_current', 'get_power', 'get_potential'])),
            'id': draw(gen.label.filter(lambda s: s not in ('V1', 'R1', 'C1', 'R2', '0', '1', '2')))}


def waveform_cases(tier):
    for w in ('sinc', '', 'RECT', 'cosine', 'square', 'rect ', 'Sin'):
        yield {'wave': w}
    for w in ('const', 'cos', 'sin', 'rect', 'tri', 'saw'):
        yield {'wave': w, 'valid': True}


def check_waveform(case, r: R):
    from CircuitCalculator.SignalProcessing.periodic_functions import periodic_function
    r.nt(True)
    r.cls('valid' if case.get('valid') else 'fault=unknown-waveform')
    if case.get('valid'):
        with r.lib('valid-waveform-rejected'):
            periodic_function(case['wave'])
        return
    r.expect_raises('accepted:unknown-waveform', periodic_function, case['wave'])


def load_cases(tier):
    for case in ('neither', 'both', 'V_ref=0', 'I_ref=0', 'V_ref<0', 'I_ref<0', 'both-negative'):
        yield {'fault': case}
    for case in ('V_ref', 'I_ref', 'V_ref+Q', 'I_ref+Q'):
        yield {'fault': None, 'form': case}


def check_load_element(case, r: R):
    """reference-value rules of the load element: exactly one positive reference value"""
    from CircuitCalculator.Network import elements as elm
    r.nt(True)
    P, Q = 12.5, 3.25
    f = case['fault']
    r.cls(f'fault=load:{f}' if f else 'twin')
    if f is None:
        with r.lib('valid-load-rejected'):
            form = case['form']
            kw = {'V_ref': 4.0} if form.startswith('V_ref') else {'I_ref': 0.5}
            if form.endswith('+Q'):
                kw['Q'] = Q
            e = elm.load('L1', P, **kw)
            S = complex(P, kw.get('Q', 0))
            want_Y = S / 16.0 if 'V_ref' in kw else 1 / (S / 0.25)
            if e.name != 'L1' or abs(e.Y - want_Y) > 1e-12 * abs(want_Y) or e.V != 0 or e.I != 0:
                r.fail('stored-altered', f'{form}: Y={e.Y!r}, expected {want_Y!r}')
        return
    kw = {'neither': {}, 'both': {'V_ref': 4.0, 'I_ref': 0.5}, 'V_ref=0': {'V_ref': 0.0}, 'I_ref=0': {'I_ref': 0.0}, 'V_ref<0': {'V_ref': -4.0},
          'I_ref<0': {'I_ref': -0.5}, 'both-negative': {'V_ref': -4.0, 'I_ref': -0.5}}[f]
    r.expect_raises(f'accepted:load-{f}', elm.load, 'L1', P, **kw)


TESTS = [
    Test('load-element-rules', check_load_element, enumerate=load_cases, exhaustive=True),
    Test('network-faults', check_network_fault, enumerate=network_cases, exhaustive=True),
    Test('constructor-signs', check_constructor, enumerate=constructor_cases, strategy=random_sign_case, quick=3000, thorough=60000, exhaustive=True),
    Test('circuit-faults', check_circuit_fault, enumerate=circuit_cases, exhaustive=True),
    Test('schematic-faults', check_schematic_fault, enumerate=schematic_cases, exhaustive=True),
    Test('unknown-queries', check_query, enumerate=query_cases, strategy=random_query_case, quick=300, thorough=3000, exhaustive=True),
    Test('waveform-names', check_waveform, enumerate=waveform_cases, exhaustive=True),
]
