"""C12 - transient simulation solves the circuit's differential equations."""
from __future__ import annotations
import math
import numpy as np
from hypothesis import strategies as st
from vlib.core import Test, R
from vlib import gen, circuits as cc, refsolve as rs, dynamic as dy, tol

PROPERTY = 'C12'
LEVEL = 'exploration'
RULE = ('random RLC + ideal-source circuits in the exact domain of C10 (skeleton and ladder generators, all naming schemes) x '
        'piecewise-linear source waveforms with break points on the grid (one-sample steps, ramps, triangles, trapezoids) x '
        'uniform grids with dt <= tau_min/20 and 200-4000 samples; every node potential, element voltage and element current '
        'is compared with the exact first-order-hold response of an independently derived exact state-space model; start from '
        'rest, KCL per sample, Ohm\'s law, v = phi1-phi2, capacitor/inductor derivative relations as algebraic residuals against '
        'the reference ODE, power = v*i; constant inputs settle to the DC solution, sinusoidal inputs to the phasor steady state. '
        'Non-trivial = >= 1 state whose response exceeds 1% of the input scale; distinct = case hash.')
ASSUMPTIONS = ['cond(A_ref) <= 1e8 and tau_max/tau_min bounded by the 4000-sample limit', 'tolerance 1e-6 of the signal scale for the exact '
               'comparisons, 2e-3 for the settling comparisons (exp(-12) and first-order-hold error of a sampled sinusoid)']


def waveform(N, pts):
    """piecewise linear through (index fraction, value) points; starts at 0 at sample 0"""
    ks = [0]
    vs = [0.0]
    for f, v in pts:
        k = min(N - 1, max(ks[-1] + 1, int(round(f * (N - 1)))))
        if k <= ks[-1]:
            continue
        ks.append(k)
        vs.append(v)
    return ks, vs


def sample(ks, vs, N):
    return np.interp(np.arange(N), ks, vs)


def prepare(case, r: R):
    spec = case['circuit']
    comps, caps, inds, vsrc, isrc = dy.parts(spec)
    if not caps and not inds:
        return r.reject('no reactive element')
    if not vsrc and not isrc:
        return r.reject('no source')
    if not dy.in_domain(spec):
        return r.reject('outside the domain (degenerate)')
    ref = dy.Ref(spec)
    A, B = ref.float_matrices()
    ev = np.linalg.eigvals(A)
    if np.linalg.cond(A) > 1e8 or ev.real.max() >= 0:
        return r.reject('ill-conditioned or marginal')
    return ref, A, B, ev


def _check_transient_one(case, r: R):
    from CircuitCalculator.Circuit.solution import TransientSolution
    p = prepare(case, r)
    if p is None:
        return
    ref, A, B, ev = p
    spec = case['circuit']
    comps, caps, inds, vsrc, isrc = dy.parts(spec)
    tau_min, tau_max = 1 / np.abs(ev).max(), 1 / np.abs(ev.real).min()
    N = case['N']
    dt = tau_min / 20 * case['dtf']
    t_start = case.get('t_start', 0.0) * dt * N       # uniform grids need not start at t = 0: the circuit rests until the first sample
    t = t_start + np.arange(N) * dt
    if t_start:
        r.cls('grid-not-starting-at-0')
    # inputs
    u = np.zeros((N, len(ref.inputs)))
    funcs = {}
    for j, sid in enumerate(ref.inputs):
        nominal = next(c['args'].get('V', c['args'].get('I')) for c in vsrc + isrc if c['id'] == sid)
        wv = case['waves'][j % len(case['waves'])]
        if wv and wv[0][0] == 'step':
            # the library's own step helper, switched exactly at a grid instant: sampled on the grid and interpolated
            # linearly it is a one-sample ramp; the oracle samples its own definition (X0 up to and including t0)
            from CircuitCalculator.SignalProcessing.one_sided_functions import step
            k0 = min(N - 2, max(0, int(wv[0][1] * (N - 1))))
            t0 = t[k0]
            u[:, j] = np.where(np.arange(N) > k0, wv[0][2] * nominal, 0.0)
            funcs[sid] = (lambda t0_, a_: (lambda tt: step(np.asarray(tt, dtype=float), t0=t0_, X0=0.0, X1=a_)))(t0, wv[0][2] * nominal)
            r.cls('step-input')
            continue
        ks, vs = waveform(N, [(f, a * nominal) for f, a in wv])
        u[:, j] = sample(ks, vs, N)
        funcs[sid] = (lambda kk, vv: (lambda tt: np.interp((np.asarray(tt, dtype=float) - t_start) / dt, kk, vv)))(ks, vs)
    x = dy.foh_response(A, B, u, dt)
    condA = float(np.linalg.cond(A))
    uscale = np.abs(u).max()
    if uscale == 0:
        return r.reject('all inputs zero')
    r.cls('oscillatory' if np.abs(ev.imag).max() > 1e-6 * np.abs(ev).max() else 'overdamped')
    if len(ref.inputs) >= 2:
        r.cls('2-sources')
    if len(ref.states) >= 2:
        r.cls('>=2-states')
    sol = None
    with r.lib('TransientSolution'):
        sol = TransientSolution(cc.lib_circuit(spec), tin=t, input=funcs)
    if sol is None:
        return
    # expected series from the exact model
    exp = {}
    for key in ref.out:
        c_row, d_row = ref.out_rows(key)
        exp[key] = x @ c_row + u @ d_row
    vmax = max([np.abs(exp[k]).max() for k in exp if k[0] != 'I'] + [1e-300])
    imax = max([np.abs(exp[k]).max() for k in exp if k[0] == 'I'] + [1e-300])
    # floors: a quantity that is exactly zero in theory carries the rounding residue of the quantities around it
    Rs = [c['args']['R'] for c in comps if c['kind'] == 'resistor'] or [1.0]
    uV = max([np.abs(u[:, j]).max() for j, s in enumerate(ref.inputs) if any(c['id'] == s for c in vsrc)] + [0.0])
    uI = max([np.abs(u[:, j]).max() for j, s in enumerate(ref.inputs) if any(c['id'] == s for c in isrc)] + [0.0])
    vmax = max(vmax, uV, max(imax, uI) * max(Rs))
    imax = max(imax, uI, vmax / max(Rs))
    states_resp = max([np.abs(exp[('V', c['id'])]).max() / vmax for c in caps] + [np.abs(exp[('I', c['id'])]).max() / imax for c in inds])
    r.nt(states_resp > 1e-2)
    got = {}
    with r.lib('queries'):
        for nd in ref.nodes:
            tt, y = sol.get_potential(nd)
            got[('phi', nd)] = np.asarray(y, dtype=float)
            if len(tt) != N or not np.allclose(tt, t, rtol=1e-12, atol=1e-12 * dt):
                r.fail('time-axis', f'{len(tt)} samples')
        for i in ref.ids:
            got[('V', i)] = np.asarray(sol.get_voltage(i)[1], dtype=float)
            got[('I', i)] = np.asarray(sol.get_current(i)[1], dtype=float)
            got[('P', i)] = np.asarray(sol.get_power(i)[1], dtype=float)
    if len(got) != len(exp) + len(ref.ids):
        return
    with r.lib('queries-repeated'):
        for i in ref.ids:          # querying is read-only: the same question gives the same answer after other queries
            if not np.array_equal(np.asarray(sol.get_voltage(i)[1], dtype=float), got[('V', i)]) or \
                    not np.array_equal(np.asarray(sol.get_current(i)[1], dtype=float), got[('I', i)]):
                r.fail('query-not-repeatable', f'{i!r}: voltage/current series differ when queried again after the power')
    kind_of = {c['id']: c['kind'] for c in comps}
    for key, want in exp.items():
        y = got[key]
        sc = imax if key[0] == 'I' else vmax
        if y.shape != want.shape:
            r.fail('series-length', f'{key}: {y.shape}')
            continue
        err = np.abs(y - want).max()
        # the model matrices come out of two inversions of the nodal matrix: their entries carry a relative error of
        # about eps*cond, which for stiff circuits (cond(A) up to 1e8) limits the response accuracy - not a defect
        if not (err <= 1e-6 * max(1.0, condA / 1e4) * sc):
            k = int(np.nanargmax(np.abs(y - want))) if np.isfinite(y).all() else 0
            kind = kind_of.get(key[1], 'node')
            r.fail(f'response-{key[0]}[{kind}]', f'{key[1]!r}: sample {k}: lib {y[k]} exact {want[k]} (scale {sc:.3g})')
        if abs(y[0]) > 1e-9 * sc:
            r.fail('not-from-rest', f'{key}: value {y[0]} at t=0')
    if r.failures:
        return
    # laws on the library's own series
    for nd in ref.nodes:
        s = np.zeros(N)
        for c in comps:
            if c['nodes'][0] == nd:
                s = s + got[('I', c['id'])]
            if c['nodes'][1] == nd:
                s = s - got[('I', c['id'])]
        if np.abs(s).max() > 1e-6 * imax:
            r.fail('kcl', f'node {nd!r}: max residual {np.abs(s).max()}')
    for c in comps:
        i = c['id']
        if np.abs(got[('V', i)] - (got[('phi', c['nodes'][0])] - got[('phi', c['nodes'][1])])).max() > 1e-9 * vmax:
            r.fail('voltage-not-potential-difference', f'{i!r}')
        if np.abs(got[('P', i)] - got[('V', i)] * got[('I', i)]).max() > 1e-9 * vmax * imax:
            r.fail('power-not-v-times-i', f'{i!r}')
        if c['kind'] == 'resistor' and np.abs(got[('V', i)] - c['args']['R'] * got[('I', i)]).max() > 1e-6 * max(vmax, c['args']['R'] * imax):
            r.fail('ohms-law', f'{i!r}')
    # differential relations without finite differences: derivative assigned by the exact ODE to the library's own state
    xl = np.column_stack([got[('V', s)] if kind_of[s] == 'capacitor' else got[('I', s)] for s in ref.states])
    dx = xl @ A.T + u @ B.T
    for j, s in enumerate(ref.states):
        c = next(c for c in comps if c['id'] == s)
        if c['kind'] == 'capacitor':
            lhs, sc = got[('I', s)] / c['args']['C'], imax / c['args']['C']
        else:
            lhs, sc = got[('V', s)] / c['args']['L'], vmax / c['args']['L']
        sc = max(sc, np.abs(dx[:, j]).max())
        if np.abs(lhs - dx[:, j]).max() > 1e-5 * max(1.0, condA / 1e4) * sc:
            r.fail(f'derivative-relation[{c["kind"]}]', f'{s!r}: max residual {np.abs(lhs - dx[:, j]).max()} (scale {sc:.3g})')


def check_settling(case, r: R):
    """constant inputs held for >= 12 tau_max settle to the DC solution; sinusoidal inputs to the phasor steady state"""
    from CircuitCalculator.Circuit.solution import TransientSolution, DCSolution, TimeDomainSolution
    p = prepare(case, r)
    if p is None:
        return
    ref, A, B, ev = p
    spec = case['circuit']
    comps, caps, inds, vsrc, isrc = dy.parts(spec)
    tau_min, tau_max = 1 / np.abs(ev).max(), 1 / np.abs(ev.real).min()
    mode = case['mode']
    r.nt(len(ref.states) >= 1)
    r.cls(f'settle-{mode}')
    if mode == 'dc':
        dt = tau_min / 20
        N = int(math.ceil(14 * tau_max / dt)) + 4
        if N > 4000:
            return r.reject('stiff: settling needs more than 4000 samples')
        t = np.arange(N) * dt
        funcs, vals = {}, {}
        for c in vsrc + isrc:
            a = c['args'].get('V', c['args'].get('I'))
            vals[c['id']] = a
            funcs[c['id']] = (lambda a_: (lambda tt: a_ * np.minimum(np.asarray(tt, dtype=float) / dt, 1.0)))(a)
        sol = dc = None
        with r.lib('TransientSolution'):
            sol = TransientSolution(cc.lib_circuit(spec), tin=t, input=funcs)
        dcnet = dy.substituted(spec, 'open', 'short', vals)
        dcx = rs.solve(dcnet)
        if sol is None or dcx is None:
            return
        S_phi, S_I = tol.scales(dcnet, dcx)
        imax = max(S_I.values())
        with r.lib('DCSolution'):
            dc = DCSolution(cc.lib_circuit(spec))
        with r.lib('final-values'):
            # after 14 tau_max the deviation from the final value has decayed to exp(-14) = 8e-7 of its largest
            # excursion - which may exceed the DC scale by orders of magnitude (1 A switched into an inductor that is
            # bridged by 20 kOhm: a 20 kV spike over a 1 V DC solution). Tolerance = DC scale + 1e-5 of that excursion.
            for nd in ref.nodes:
                ys = np.asarray(sol.get_potential(nd)[1], dtype=float)
                y, want = ys[-1], complex(dcx['phi'][nd]).real
                lim = 2e-3 * S_phi + 1e-5 * float(np.abs(ys - want).max())
                if not abs(y - want) <= lim:
                    r.fail('does-not-settle-to-dc[potential]', f'node {nd!r}: final {y} DC {want}')
                if dc is not None and not abs(y - dc.get_potential(nd)) <= lim:
                    r.fail('does-not-settle-to-DCSolution', f'node {nd!r}: final {y} DCSolution {dc.get_potential(nd)}')
            for i in ref.ids:
                ys = np.asarray(sol.get_current(i)[1], dtype=float)
                y, want = ys[-1], complex(dcx['I'][i]).real
                if not abs(y - want) <= 2e-3 * imax + 1e-5 * float(np.abs(ys - want).max()):
                    r.fail('does-not-settle-to-dc[current]', f'{i!r}: final {y} DC {want}')
        return
    # sinusoidal: replace the voltage sources by ac sources of one common frequency
    w = case['wf'] / tau_max * 5
    period = 2 * math.pi / w
    dt = min(tau_min / 20, period / 400)
    N = int(math.ceil((12 * tau_max + 2 * period) / dt)) + 2
    if N > 20000 or not vsrc or isrc:
        return r.reject('stiff or no voltage source / has current source')
    spec2 = {'components': []}
    funcs = {}
    for c in spec['components']:
        if c['kind'] == 'dc_voltage_source':
            amp, phi = c['args']['V'], case['phis'][len(funcs) % len(case['phis'])]
            spec2['components'].append({'kind': 'ac_voltage_source', 'id': c['id'], 'nodes': c['nodes'], 'args': {'V': amp, 'w': w, 'phi': phi}})
            funcs[c['id']] = (lambda a_, p_: (lambda tt: a_ * np.cos(w * np.asarray(tt, dtype=float) + p_)))(amp, phi)
        else:
            spec2['components'].append(c)
    t = np.arange(N) * dt
    sol = td = None
    with r.lib('TransientSolution'):
        sol = TransientSolution(cc.lib_circuit(spec2), tin=t, input=funcs)
    with r.lib('TimeDomainSolution'):
        td = TimeDomainSolution(cc.lib_circuit(spec2), w_max=w)
    if sol is None or td is None:
        return
    last = t >= t[-1] - period
    amp = max(abs(c['args']['V']) for c in vsrc)
    with r.lib('steady-state'):
        for nd in ref.nodes:
            ys = np.asarray(sol.get_potential(nd)[1], dtype=float)
            y = ys[last]
            z = np.asarray(td.get_potential(nd)(t[last]), dtype=float)
            if not np.abs(y - z).max() <= 5e-3 * amp + 1e-5 * float(np.abs(ys).max()):
                r.fail('does-not-settle-to-periodic-steady-state', f'node {nd!r}: max deviation {np.abs(y - z).max()} (amplitude {amp})')


pt = st.tuples(st.floats(0.02, 0.98), st.sampled_from([1.0, -1.0, 0.5, 0.0, 2.0, -0.3]))
wave = st.one_of(
    st.lists(pt, min_size=1, max_size=5).map(lambda l: sorted(l)),
    st.sampled_from([[(0.005, 1.0)], [(0.01, 1.0), (0.5, 1.0), (0.51, 0.0)], [(0.3, 1.0), (0.6, -1.0), (0.9, 0.0)], [(0.001, 1.0), (0.4, 1.0), (0.401, -1.0)]]),
    st.tuples(st.just('step'), st.sampled_from([0.0, 0.1, 0.25, 0.5]), st.sampled_from([1.0, -1.0, 2.0])).map(lambda x: [x]))


@st.composite
def transient_case(draw):
    return {'circuit': draw(dy.any_dynamic(max_states=4)), 'N': draw(st.sampled_from([200, 400, 1000, 4000])),
            'dtf': draw(st.sampled_from([1.0, 1.0, 0.5, 0.1])), 't_start': draw(st.sampled_from([0.0, 0.0, 1.0, 0.37, 5.0])), 'waves': [[list(p) for p in draw(wave)] for _ in range(draw(st.integers(1, 3)))]}


@st.composite
def settling_case(draw):
    mode = draw(st.sampled_from(['dc', 'dc', 'sin']))
    return {'circuit': draw(dy.ladder_circuit(max_sections=2) if mode == 'sin' else dy.any_dynamic(max_states=3)), 'mode': mode, 'wf': draw(st.sampled_from([0.2, 1.0, 3.0])),
            'phis': draw(st.lists(st.sampled_from([0.0, 1.0, -2.0, math.pi / 2]), min_size=1, max_size=2))}


def check_transient(case, r: R):
    """the case itself, then - in the same process - its value-perturbed twin (same names, topology, listing order):
    a result that is cached or keyed by structure instead of by value shows up on the second evaluation"""
    _check_transient_one(case, r)
    if r.failures:
        return
    first_rejected, r.rejected = r.rejected, None
    twin = dict(case)
    twin['circuit'] = gen.twin_circuit(case['circuit'])
    sub = R()
    _check_transient_one(twin, sub)
    for s_, d_ in sub.failures:
        r.fail('twin:' + s_, d_)
    r.rejected = first_rejected


def check_step_helper(case, r: R):
    """the library's own generator of step waveforms (the inputs of its transient examples): step(t, t0, X0, X1) is the
    level X0 before t0 and the level X1 after it"""
    from CircuitCalculator.SignalProcessing.one_sided_functions import step
    t = np.array(case['t'], dtype=float)
    t0, X0, X1 = case['t0'], case['X0'], case['X1']
    r.nt(X0 != 0 and X1 != X0 and (t < t0).any() and (t > t0).any())
    r.cls('X0=0' if X0 == 0 else 'X0!=0', 'defaults' if case['defaults'] else 'explicit-levels')
    with r.lib('step'):
        y = np.asarray(step(t, t0) if case['defaults'] else step(t, t0, X0, X1), dtype=float)
        lo, hi = (0.0, 1.0) if case['defaults'] else (X0, X1)
        if y.shape != t.shape:
            return r.fail('step-shape', f'{y.shape} for {t.shape}')
        for tk, yk in zip(t, y):
            want = (lo, hi) if tk == t0 else ((lo,) if tk < t0 else (hi,))
            if not any(yk == w_ for w_ in want):
                r.fail('step-level', f'step({tk}, t0={t0}, X0={lo}, X1={hi}) = {yk}')
                break


@st.composite
def step_case(draw):
    t0 = draw(st.sampled_from([0.0, 1e-3, 0.5, -1.0, 2.0]))
    ts = draw(st.lists(st.one_of(st.floats(-3, 3, allow_nan=False), st.just(t0)), min_size=2, max_size=8))
    lv = st.sampled_from([0.0, 1.0, -1.0, 2.0, 3.0, -5.0, 0.5, 33.0])
    return {'t': sorted(ts), 't0': t0, 'X0': draw(lv), 'X1': draw(lv), 'defaults': draw(st.sampled_from([False, False, False, True]))}


TESTS = [
    Test('transient', check_transient, strategy=transient_case, quick=2500, thorough=20000),
    Test('step-helper', check_step_helper, strategy=step_case, quick=500, thorough=5000),
    Test('settling', check_settling, strategy=settling_case, quick=1000, thorough=8000),
]
