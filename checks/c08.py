"""C08 - Fourier series of the built-in periodic waveforms are the true coefficients of their own time functions."""
from __future__ import annotations
import math, cmath
import numpy as np
from hypothesis import strategies as st
from vlib.core import Test, R
from vlib import gen

PROPERTY = 'C08'
LEVEL = 'exploration'
RULE = ('(wave type, period 1e-6..1e3, amplitude either sign, phase +-100 rad, offset, harmonic order n 0..600 dense / to 5000 '
        'sparse); oracle = true coefficient of the waveform\'s own time_function: DFT for const/cos/sin, numerically located '
        'break points + closed-form piecewise-linear integration for rect/tri/saw; plus a/b/c/c(-n) consistency, Bessel/Parseval '
        'bound, lookup by name. Non-trivial = n>=1 with non-zero true coefficient; distinct = distinct (waveform, n) case hash.')
ASSUMPTIONS = ['rect/tri/saw time functions are piecewise linear with at most 4 break points per period (verified per case)',
               'tolerance 1e-7 relative to |amplitude|+|offset| (argument reduction of n*phase limits accuracy)']

WAVES = ['const', 'cos', 'sin', 'rect', 'tri', 'saw']


def make(case):
    from CircuitCalculator.SignalProcessing.periodic_functions import periodic_function, fourier_series
    cls = periodic_function(case['wave'])
    f = cls(period=case['T'], amplitude=case['A'], phase=case['phi'], offset=case['off'])
    return f, fourier_series(f)


# ---- oracle ----------------------------------------------------------------------------------------------------

def dft_coeff(tf, T, n):
    N = 4096
    while N < 2 * n + 8:
        N *= 2
    t = np.arange(N) * (T / N)
    y = np.asarray(tf(t), dtype=float)
    if n == 0:
        return complex(y.mean()), float((y * y).mean())
    k = (np.arange(N) * n) % N          # exact phase index, no float accumulation
    X = 2.0 / N * np.sum(y * np.exp(-2j * np.pi * k / N))
    return complex(X), float((y * y).mean())


class NotPWL(Exception):
    pass


def pieces(tf, T, scale):
    """[(t1, t2, alpha, beta)] with f(t) = alpha + beta*t on (t1, t2), covering one period starting at a break point"""
    M = 512
    h = T / M
    ks = np.arange(-3, M + 4)
    t = ks * h
    y = np.asarray(tf(t), dtype=float)
    tolv = 1e-9 * scale
    d2 = np.abs(y[:-2] - 2 * y[1:-1] + y[2:])          # centred at ks[1:-1]
    marked = [int(ks[i + 1]) for i in range(len(d2)) if d2[i] > tolv and 0 <= ks[i + 1] < M]
    if not marked:
        # no break inside: also check wrap
        return [(0.0, T, *line(tf, 0.0, T))]
    clusters = []
    for k in marked:
        if clusters and k - clusters[-1][-1] <= 1:
            clusters[-1].append(k)
        else:
            clusters.append([k])
    if len(clusters) > 1 and clusters[0][0] == 0 and clusters[-1][-1] == M - 1:
        last = clusters.pop()
        clusters[0] = [k - M for k in last] + clusters[0]
    if len(clusters) > 4:
        raise NotPWL(f'{len(clusters)} break points')
    bps = []
    for cl in clusters:
        lo, hi = (cl[0] - 1) * h, (cl[-1] + 1) * h
        fl = lambda x: float(np.asarray(tf(np.array([x])))[0])
        aL, bL = two_point(lo - h, fl(lo - h), lo, fl(lo))
        aR, bR = two_point(hi, fl(hi), hi + h, fl(hi + h))
        tb = None
        if abs(bL - bR) * T > 1e-6 * scale:
            cand = (aR - aL) / (bL - bR)
            if lo - 1e-9 * T <= cand <= hi + 1e-9 * T and abs((aL + bL * cand) - (aR + bR * cand)) <= tolv \
                    and abs(fl(min(max(cand - 1e-7 * T, lo), hi)) - (aL + bL * min(max(cand - 1e-7 * T, lo), hi))) <= tolv \
                    and abs(fl(min(max(cand + 1e-7 * T, lo), hi)) - (aR + bR * min(max(cand + 1e-7 * T, lo), hi))) <= tolv:
                tb = cand
        if tb is None:
            a, b = lo, hi
            for _ in range(70):
                m = 0.5 * (a + b)
                if abs(fl(m) - (aL + bL * m)) <= tolv:
                    a = m
                else:
                    b = m
            tb = 0.5 * (a + b)
        bps.append(tb)
    bps.sort()
    out = []
    for i, t1 in enumerate(bps):
        t2 = bps[i + 1] if i + 1 < len(bps) else bps[0] + T
        out.append((t1, t2, *line(tf, t1, t2, scale)))
    return out


def two_point(t1, y1, t2, y2):
    b = (y2 - y1) / (t2 - t1)
    return y1 - b * t1, b


def line(tf, t1, t2, scale=1.0):
    L = t2 - t1
    xs = np.array([t1 + L * f for f in (0.2, 0.8, 0.05, 0.35, 0.5, 0.65, 0.95)])
    ys = np.asarray(tf(xs), dtype=float)
    a, b = two_point(xs[0], ys[0], xs[1], ys[1])
    if np.max(np.abs(ys - (a + b * xs))) > 1e-8 * scale:
        raise NotPWL('piece is not linear')
    return a, b


def pwl_coeff(ps, T, n):
    w = 2 * math.pi * n / T
    tot = 0j
    ms = 0.0
    tv = 0.0
    prev_end = None
    t0 = ps[0][0]
    for (t1, t2, a, b) in ps:
        # integrate in the local variable u = t - t0 for accuracy:  f = (a + b t0) + b u
        a0 = a + b * t0
        u1, u2 = t1 - t0, t2 - t0
        if n == 0:
            tot += a0 * (u2 - u1) + b * (u2 * u2 - u1 * u1) / 2
        else:
            s = -1j * w
            F = lambda u: ((a0 + b * u) / s - b / (s * s)) * cmath.exp(s * u)
            tot += F(u2) - F(u1)
        y1, y2 = a + b * t1, a + b * t2
        ms += (y1 * y1 + y1 * y2 + y2 * y2) / 3 * (t2 - t1)
        tv += abs(y2 - y1)
        if prev_end is not None:
            tv += abs(y1 - prev_end)
        prev_end = y2
    tv += abs((ps[0][2] + ps[0][3] * ps[0][0]) - prev_end)
    if n == 0:
        X = tot / T
    else:
        X = 2 * tot / T * cmath.exp(-1j * w * t0)
    return complex(X), ms / T, tv


def true_coeff(case, tf, n):
    """(X_n, mean square, total variation or None)"""
    scale = max(abs(case['A']), 1e-4 * (abs(case['A']) + abs(case['off']))) + 1e-300   # AC scale, floor = float noise of the offset
    if case['wave'] in ('const', 'cos', 'sin'):
        X, ms = dft_coeff(tf, case['T'] if case['T'] > 0 else 1.0, n)
        return X, ms, None
    ps = pieces(tf, case['T'], scale)
    return pwl_coeff(ps, case['T'], n)


# ---- checks ----------------------------------------------------------------------------------------------------

def check_coefficient(case, r: R):
    n = case['n']
    scale = abs(case['A']) + abs(case['off'])
    tolv = (1e-7 * scale if n == 0 else 1e-7 * abs(case['A']) + 1e-11 * abs(case['off'])) + 1e-300
    f = fs = None
    with r.lib('construct'):
        f, fs = make(case)
    if fs is None:
        return
    if f.wavetype != case['wave']:
        r.fail('lookup-by-name', f'asked {case["wave"]!r} got {f.wavetype!r}')
    tf = f.time_function
    try:
        X, ms, tv = true_coeff(case, tf, n)
    except NotPWL as e:
        return r.fail('time-function-not-piecewise-linear', str(e))
    r.cls(case['wave'], 'n=0' if n == 0 else ('n=1' if n == 1 else ('n<=20' if n <= 20 else ('n<=600' if n <= 600 else 'n>600'))))
    if abs(case['phi']) > 2 * math.pi:
        r.cls('phase-many-turns')
    if case['A'] < 0:
        r.cls('negative-amplitude')
    nz = abs(X) > 1e-6 * scale
    r.nt(n >= 1 and nz)
    if n >= 1 and not nz:
        r.cls('true-coefficient-is-zero')
    with r.lib('amplitude/phase'):
        A, P = fs.amplitude(n), fs.phase(n)
        if n == 0:
            got = A * math.cos(P)
            if abs(got - X.real) > tolv:
                r.fail('mean-value', f'lib {got} true {X.real}')
        else:
            got = A * cmath.exp(1j * P)
            if abs(got - X) > tolv:
                r.fail('harmonic-vs-true', f'n={n}: lib {got} true {X}')
    if n >= 1:
        with r.lib('a/b/c'):
            a, b, c, cm = fs.a(n), fs.b(n), fs.c(n), fs.c(-n)
            if abs(a - X.real) > tolv:
                r.fail('a-coefficient', f'n={n}: lib {a} true {X.real}')
            if abs(b + X.imag) > tolv:
                r.fail('b-coefficient', f'n={n}: lib {b} true {-X.imag}')
            if abs(c - X / 2) > tolv:
                r.fail('c-coefficient', f'n={n}: lib {c} true {X / 2}')
            if abs(cm - (X / 2).conjugate()) > tolv:
                r.fail('c-negative-order', f'n={n}: lib {cm} true {(X / 2).conjugate()}')
            if abs(fs.amplitude(-n) * cmath.exp(1j * fs.phase(-n)) - X.conjugate()) > tolv:
                r.fail('negative-order-amplitude-phase', f'n={n}')


def check_parseval(case, r: R):
    """Bessel: partial energy <= mean square; Parseval: the gap is at most TV^2/(2 pi^2 N)."""
    N = case['N']
    scale = abs(case['A']) + abs(case['off'])
    f = fs = None
    with r.lib('construct'):
        f, fs = make(case)
    if fs is None:
        return
    try:
        X0, ms, tv = true_coeff(case, f.time_function, 0)
    except NotPWL as e:
        return r.fail('time-function-not-piecewise-linear', str(e))
    r.cls(case['wave'])
    r.nt(scale > 0 and case['wave'] != 'const')
    with r.lib('energy'):
        e = (fs.amplitude(0) * math.cos(fs.phase(0))) ** 2 + sum(fs.amplitude(n) ** 2 for n in range(1, N + 1)) / 2
        slack = 1e-9 * scale * scale
        if e > ms + slack:
            r.fail('bessel-inequality', f'partial energy {e} exceeds mean square {ms}')
        bound = 0.0 if tv is None else tv * tv / (2 * math.pi ** 2 * N)
        if ms - e > bound + slack:
            r.fail('parseval-gap', f'mean square {ms} partial energy {e} allowed gap {bound}')


def check_lookup(case, r: R):
    from CircuitCalculator.SignalProcessing import periodic_functions as pf
    r.nt()
    r.cls(case['wave'])
    with r.lib('lookup'):
        cls = pf.periodic_function(case['wave'])
        if cls.wavetype != case['wave']:
            r.fail('lookup-by-name', f'{case["wave"]!r} -> {cls.__name__}')
        inst = cls(period=1.0, amplitude=1.0, phase=0.0, offset=0.0)
        h = pf.fourier_series(inst)
        if type(h) is not pf.fourier_series_mapping[cls]:
            r.fail('harmonic-class-mapping', cls.__name__)


@st.composite
def wave_case(draw):
    wave = draw(st.sampled_from(WAVES))
    T = draw(gen.pos_real(-5, 3)) if draw(st.integers(0, 4)) else float(draw(st.sampled_from([1e-6, 1.0, 2 * math.pi, 0.02, 1000.0])))
    A = draw(gen.signed_real(-3, 4))
    pm = draw(st.integers(0, 4))
    if pm == 0:
        phi = 0.0
    elif pm == 1:
        phi = draw(st.sampled_from([math.pi / 2, -math.pi / 2, math.pi, -math.pi, math.pi / 4, 2 * math.pi, 1.0, -1.0]))
    elif pm == 2:
        phi = draw(st.floats(-math.pi, math.pi, allow_nan=False))
    else:
        phi = draw(st.floats(-100, 100, allow_nan=False))
    off = 0.0 if draw(st.booleans()) else draw(gen.signed_real(-3, 4))
    nm = draw(st.integers(0, 9))
    if wave in ('const', 'cos', 'sin'):
        n = draw(st.sampled_from([0, 1, 1, 1, 1, 2, 3])) if nm <= 6 else draw(st.integers(2, 5000))
    elif nm <= 1:
        n = draw(st.integers(0, 3))
    elif nm <= 7:
        n = draw(st.integers(1, 600))
    else:
        n = draw(st.integers(601, 5000))
    return {'wave': wave, 'T': T, 'A': A, 'phi': phi, 'off': off, 'n': n}


@st.composite
def parseval_case(draw):
    c = draw(wave_case())
    c.pop('n')
    c['N'] = draw(st.sampled_from([5, 20, 50, 200]))
    return c


TESTS = [
    Test('coefficient', check_coefficient, strategy=wave_case, quick=20000, thorough=150000),
    Test('parseval', check_parseval, strategy=parseval_case, quick=2000, thorough=10000),
    Test('lookup', check_lookup, enumerate=lambda tier: [{'wave': w} for w in WAVES], exhaustive=True),
]
