"""C10 - the state-space model is an exact realisation of the circuit."""
from __future__ import annotations
import math
import numpy as np
from hypothesis import strategies as st
from vlib.core import Test, R
from vlib import gen, circuits as cc, refsolve as rs, tol, dynamic as dy

PROPERTY = 'C10'
LEVEL = 'exploration'
RULE = ('random RLC + ideal-source circuits (1-5 states, 1-3 sources, three naming schemes incl. adversarial labels, any listing '
        'order, ground component or implicit ground), accepted iff the exact domain test passes (full degree, no root at s=0); '
        'for every source, every node / element voltage / element current and a sweep of 13 frequencies (0, 1e-2..1e7 rad/s and '
        'the circuit\'s own corner frequencies) the transfer function C(jwI-A)^-1 B + D of the library\'s model is compared with '
        'the exact phasor response of the circuit to that source alone; DC gain against the exact DC solution; state dimension, '
        'published source order, wrapper stacking. Non-trivial = >= 2 states or >= 2 sources; distinct = case hash.')
ASSUMPTIONS = ['frequencies at which the exact phasor network is singular (lossless resonance) or cond(jwI-A_ref) > 1e8 are skipped',
               'reference directions: all state-space currents are I12 (first to second terminal)']

BASE_W = [0.0, 1e-2, 1.0, 1e2, 1e3, 1e4, 1e5, 1e7]


def sweep(spec):
    comps, caps, inds, vsrc, isrc = dy.parts(spec)
    Rs = [c['args']['R'] for c in comps if c['kind'] == 'resistor'] or [1.0]
    ws = list(BASE_W)
    for c in caps[:2]:
        ws.append(1 / (Rs[0] * c['args']['C']))
    for l in inds[:2]:
        ws.append(Rs[-1] / l['args']['L'])
    if caps and inds:
        ws.append(1 / math.sqrt(caps[0]['args']['C'] * inds[0]['args']['L']))
    return [float(f'{w:.6g}') for w in ws]


def current_floor(spec, S_phi, S_I):
    """state-space currents are sums of products over the whole model: their rounding residue scales with the largest
    current any resistor could carry at the voltage scale, even where the exact current is 0 (capacitor at DC)"""
    g = max([1 / c['args']['R'] for c in spec['components'] if c['kind'] == 'resistor'] + [0.0])
    floor = max(list(S_I.values()) + [g * S_phi])
    return {i: max(v, floor) for i, v in S_I.items()}


def build(spec):
    from CircuitCalculator.Circuit.circuit import transform_circuit
    from CircuitCalculator.Network.NodalAnalysis.state_space_model import nodal_state_space_model
    circuit = cc.lib_circuit(spec)
    c_values = {c.id: float(c.value['C']) for c in circuit.components if c.type == 'capacitor'}
    l_values = {c.id: float(c.value['L']) for c in circuit.components if c.type == 'inductance'}
    ssm = nodal_state_space_model(network=transform_circuit(circuit, w=0), c_values=c_values, l_values=l_values)
    return circuit, ssm


def classify(spec, r: R):
    comps, caps, inds, vsrc, isrc = dy.parts(spec)
    r.nt(len(caps) + len(inds) >= 2 or len(vsrc) + len(isrc) >= 2)
    if len(inds) >= 2:
        r.cls('>=2-inductors')
    if caps and inds:
        r.cls('L-and-C')
    if isrc:
        r.cls('current-source')
    srcn = sorted(c['id'] for c in isrc)
    vn = sorted(c['id'] for c in vsrc + inds)
    if srcn and vn and max(srcn) > min(vn):
        r.cls('names-interleave')
    li = [c['id'] for c in inds]
    if li != sorted(li):
        r.cls('inductors-listed-non-alphabetically')
    ci = [c['id'] for c in caps]
    if ci != sorted(ci):
        r.cls('capacitors-listed-non-alphabetically')
    if len(vsrc) + len(isrc) >= 2:
        r.cls('multi-source')


def _check_realisation_one(case, r: R):
    spec = case['circuit']
    comps, caps, inds, vsrc, isrc = dy.parts(spec)
    if not caps and not inds:
        return r.reject('no reactive element')
    if not vsrc and not isrc:
        return r.reject('no source')
    if not dy.in_domain(spec):
        return r.reject('outside the domain (degenerate)')
    ref = dy.Ref(spec)
    A_ref, B_ref = ref.float_matrices()
    classify(spec, r)
    circuit = ssm = None
    with r.lib('build'):
        circuit, ssm = build(spec)
    if ssm is None:
        return
    n = len(caps) + len(inds)
    if ssm.n_states != n or ssm.A.shape != (n, n):
        r.fail('state-dimension', f'{ssm.A.shape} for {len(caps)} capacitors + {len(inds)} inductors')
    src_ids = [c['id'] for c in vsrc + isrc]
    sources = None
    with r.lib('sources'):
        sources = list(ssm.sources)
    if sources is None:
        return
    if sorted(sources) != sorted(src_ids) or ssm.B.shape[1] != len(src_ids):
        return r.fail('published-sources', f'{sources} for sources {src_ids}, B has {ssm.B.shape[1]} columns')
    nodes, ids = ref.nodes, ref.ids
    rows = None
    with r.lib('output-rows'):
        rows = {}
        for nd in nodes:
            rows[('phi', nd)] = (np.ravel(ssm.c_row_for_potential(nd)), np.ravel(ssm.d_row_for_potential(nd)))
        for i in ids:
            rows[('V', i)] = (np.ravel(ssm.c_row_voltage(i)), np.ravel(ssm.d_row_voltage(i)))
            rows[('I', i)] = (np.ravel(ssm.c_row_current(i)), np.ravel(ssm.d_row_current(i)))
    if rows is None:
        return
    A, B = np.asarray(ssm.A, dtype=float), np.asarray(ssm.B, dtype=float)
    I = np.eye(n)
    # The model's matrices come out of one float inversion of the resistive skeleton (storage elements replaced by
    # sources): their entries carry an absolute rounding error of about eps * cond(skeleton) * (largest gain of the
    # model), also at frequencies where the exact response is orders of magnitude below that largest gain. Responses
    # are therefore judged relative to max(scale at this frequency, kfloor * peak scale over the sweep).
    kappa = rs.nodal_cond(dy.substituted(spec, 'vsrc', 'isrc'))
    kfloor = 1e-9 * max(kappa, 1e3)
    peaks = {}
    for sid in src_ids:
        k = sources.index(sid)
        solved = []
        for w in sweep(spec):
            net = dy.phasor_network(spec, w, sid)
            sol = rs.solve(net)
            if sol is None:
                continue
            solved.append((w, net, sol) + tol.scales(net, sol))
        peaks[sid] = max([x[3] for x in solved] + [0.0])
        for w, net, sol, S_phi, S_I in solved:
            if np.linalg.cond(1j * w * I - A_ref) > tol.KAPPA_MAX or not rs.well_conditioned(net, tol.KAPPA_MAX):
                r.cls('frequency-skipped-ill-conditioned')
                continue
            if S_phi < kfloor * peaks[sid]:
                r.cls('response-far-below-peak')
                S_phi = kfloor * peaks[sid]
            S_I = current_floor(spec, S_phi, S_I)
            try:
                G = np.linalg.solve(1j * w * I - A, B[:, k])
            except np.linalg.LinAlgError:
                r.fail('transfer-function-singular', f'source {sid!r} w={w}')
                continue
            r.cls('w=0' if w == 0 else 'w>0')
            for key, (c_row, d_row) in rows.items():
                H = c_row @ G + d_row[k]
                if key[0] == 'phi':
                    want, sc = sol['phi'][key[1]], S_phi
                elif key[0] == 'V':
                    b = next(b for b in net['branches'] if b['id'] == key[1])
                    want, sc = sol['phi'][b['n1']] - sol['phi'][b['n2']], S_phi
                else:
                    want, sc = sol['I'][key[1]], S_I[key[1]]
                if not tol.close(H, want, sc, 1e-5):
                    kind = next(c['kind'] for c in comps if c['id'] == key[1]) if key[0] != 'phi' else 'node'
                    r.fail(f'transfer-{key[0]}[{kind}]', f'{key[1]!r} source {sid!r} w={w}: model {H} exact {complex(want)}')
    # DC gain against the DC solution of the circuit (all sources at their nominal values)
    dcnet = dy.substituted(spec, 'open', 'short', {c['id']: c['args'].get('V', c['args'].get('I')) for c in vsrc + isrc})
    dc = rs.solve(dcnet)
    if dc is not None and rs.well_conditioned(dcnet, tol.KAPPA_MAX) and np.linalg.cond(A_ref) < tol.KAPPA_MAX:
        u = np.array([next(c['args'].get('V', c['args'].get('I')) for c in vsrc + isrc if c['id'] == s) for s in sources], dtype=float)
        S_phi, S_I = tol.scales(dcnet, dc)
        S_phi = max(S_phi, kfloor * sum(peaks[s_] * abs(u_) for s_, u_ in zip(sources, u)))
        S_I = current_floor(spec, S_phi, S_I)
        try:
            x = np.linalg.solve(-A, B @ u)
        except np.linalg.LinAlgError:
            x = None
            r.fail('dc-gain-singular', '')
        if x is not None:
            for key, (c_row, d_row) in rows.items():
                y = c_row @ x + d_row @ u
                if key[0] == 'phi':
                    want, sc = dc['phi'][key[1]], S_phi
                elif key[0] == 'V':
                    b = next(b for b in dcnet['branches'] if b['id'] == key[1])
                    want, sc = dc['phi'][b['n1']] - dc['phi'][b['n2']], S_phi
                else:
                    want, sc = dc['I'][key[1]], S_I[key[1]]
                if not tol.close(y, want, sc, 1e-5):
                    r.fail(f'dc-gain-{key[0]}', f'{key[1]!r}: model {y} DC solution {complex(want)}')
    # circuit-level wrapper stacks the requested rows
    from CircuitCalculator.Circuit.state_space_model import state_space_model
    pn, vi, ci = nodes[:2], ids[:2], ids[-2:]
    m = None
    with r.lib('state_space_model-wrapper'):
        m = state_space_model(circuit, potential_nodes=pn, voltage_ids=vi, current_ids=ci)
    if m is None:
        return
    want_C = np.vstack([rows[('phi', x)][0] for x in pn] + [rows[('V', x)][0] for x in vi] + [rows[('I', x)][0] for x in ci])
    want_D = np.vstack([rows[('phi', x)][1] for x in pn] + [rows[('V', x)][1] for x in vi] + [rows[('I', x)][1] for x in ci])
    mA, mB, mC, mD = (np.asarray(x, dtype=float) for x in (m.A, m.B, m.C, m.D))
    if mC.shape != want_C.shape or mD.shape != want_D.shape or mA.shape != A.shape or mB.shape != B.shape:
        return r.fail('wrapper-shapes', f'A {mA.shape} B {mB.shape} C {mC.shape} D {mD.shape}')
    # the wrapper may order its states as it likes: compare transfer matrices, not raw matrices
    for w in (0.0, sweep(spec)[-1], 3.7e2):
        if np.linalg.cond(1j * w * I - A_ref) > tol.KAPPA_MAX:
            continue
        try:
            H1 = mC @ np.linalg.solve(1j * w * I - mA, mB.astype(complex)) + mD
            G2 = np.linalg.solve(1j * w * I - A, B.astype(complex))
            H2 = want_C @ G2 + want_D
        except np.linalg.LinAlgError:
            continue
        # scale of the terms that are added up (the sum itself may cancel to zero, e.g. at DC across inductors)
        scale = max(float(np.abs(H2).max()), float(np.abs(want_D).max()), float(np.abs(want_C).max() * np.abs(G2).max()), 1e-300)
        if np.any(np.abs(H1 - H2) > 1e-6 * scale):
            r.fail('wrapper-stacking', f'w={w}: wrapper transfer matrix differs from the stacked output rows')


@st.composite
def realisation_case(draw):
    return {'circuit': draw(dy.any_dynamic())}


def check_realisation(case, r: R):
    """the case itself, then - in the same process - its value-perturbed twin (same names, topology, listing order):
    a result that is cached or keyed by structure instead of by value shows up on the second evaluation"""
    _check_realisation_one(case, r)
    if r.failures:
        return
    first_rejected, r.rejected = r.rejected, None
    twin = dict(case)
    twin['circuit'] = gen.twin_circuit(case['circuit'])
    sub = R()
    _check_realisation_one(twin, sub)
    for s_, d_ in sub.failures:
        r.fail('twin:' + s_, d_)
    r.rejected = first_rejected


TESTS = [
    Test('realisation', check_realisation, strategy=realisation_case, quick=3000, thorough=40000),
]
