"""C17 - loading describes exactly what was written, without side effects."""
from __future__ import annotations
import copy, json, math, cmath
from hypothesis import strategies as st
from vlib.core import Test, R, canon
from vlib import gen

PROPERTY = 'C17'
LEVEL = 'exploration'
RULE = ('grammar-generated network descriptions over the 12 kinds of the network loader table and circuit descriptions over the 10 '
        'kinds of the circuit loader table (complex numbers in real/imag, abs/phase and abs/phase_deg notation), nested documents '
        '(dict/list recursion depth <= 4, complex leaves anywhere, lists of scalars, empty containers) in JSON and YAML, repeated '
        'loads of one object. Oracle: independent kind->value table, deep snapshots of every argument, round trip equality. '
        'Non-trivial = description with >= 2 kinds, or a document with a complex leaf below the top level; distinct = case hash.')
ASSUMPTIONS = ['dictionaries whose key set is one of the reserved complex encodings are not generated as user data',
               'NaN/inf, tuples and non-string keys are not generated (JSON cannot carry them)']

NET_KINDS = ['resistor', 'conductor', 'impedance', 'admittance', 'linear_current_source', 'current_source', 'real_current_source',
             'linear_voltage_source', 'voltage_source', 'real_voltage_source', 'short_circuit', 'open_circuit']
CIR_KINDS = ['resistor', 'conductance', 'impedance', 'admittance', 'dc_voltage_source', 'ac_voltage_source', 'complex_voltage_source',
             'dc_current_source', 'ac_current_source', 'complex_current_source']


def snap(x):
    return copy.deepcopy(x)


def same(a, b):
    return canon(a) == canon(b)


def cnum(enc) -> complex:
    """my reading of the three notations"""
    if 'real' in enc:
        return complex(enc['real'], enc['imag'])
    ph = enc['phase'] if 'phase' in enc else math.radians(enc['phase_deg'])
    return enc['abs'] * complex(math.cos(ph), math.sin(ph))


def close(a, b, rtol=1e-12):
    a, b = complex(a), complex(b)
    if a == b:
        return True
    return abs(a - b) <= rtol * max(abs(a), abs(b))


# ---- network loader ---------------------------------------------------------------------------------------------

def expected_element(e):
    """(Z or None, Y or None, V or None, I or None) that must hold for the loaded element"""
    t = e['type']
    if t == 'resistor':
        return {'Z': e['R'], 'V': 0}
    if t == 'conductor':
        return {'Y': e['G'], 'I': 0}
    if t == 'impedance':
        return {'Z': cnum(e['Z']), 'V': 0}
    if t == 'admittance':
        return {'Y': cnum(e['Y']), 'I': 0}
    if t == 'linear_current_source':
        return {'I': cnum(e['I']), 'Y': cnum(e['Y'])}
    if t == 'current_source':
        return {'I': cnum(e['I']), 'Y': 0}
    if t == 'real_current_source':
        return {'I': e['I'], 'Y': e.get('Y', 0)}
    if t == 'linear_voltage_source':
        return {'V': cnum(e['V']), 'Z': cnum(e['Z'])}
    if t == 'voltage_source':
        return {'V': cnum(e['V']), 'Z': 0}
    if t == 'real_voltage_source':
        return {'V': e['V'], 'Z': e.get('Z', 0)}
    if t == 'short_circuit':
        return {'V': 0, 'Z': 0}
    if t == 'open_circuit':
        return {'I': 0, 'Y': 0}
    raise ValueError(t)


def check_network_load(case, r: R):
    from CircuitCalculator.Network.loaders import load_network
    desc = case['desc']
    kinds = {e['type'] for e in desc}
    r.cls(*[f'kind={k}' for k in kinds])
    if any('phase' in v for e in desc for v in e.values() if isinstance(v, dict)):
        r.cls('polar-notation')
    r.nt(len(kinds) >= 2)
    before = snap(desc)
    net = None
    with r.lib('load_network'):
        net = load_network(desc)
    if not same(desc, before):
        r.fail('argument-mutated', f'load_network changed its argument: {canon(desc)[:200]}')
    if net is None:
        return
    if len(net.branches) != len(before):
        return r.fail('branch-count', f'{len(net.branches)} branches for {len(before)} entries')
    for e, b in zip(before, net.branches):
        if b.id != e['id'] or b.node1 != e['N1'] or b.node2 != e['N2']:
            r.fail('id-or-terminals', f'entry {e["id"]!r} {e["N1"]!r}->{e["N2"]!r} loaded as {b.id!r} {b.node1!r}->{b.node2!r}')
        exp = expected_element(e)
        for k, v in exp.items():
            with r.lib(f'element.{k}'):
                got = getattr(b.element, k)
                if not close(got, v):
                    r.fail('element-value', f'{e["type"]} {e["id"]!r}: {k} loaded {got!r} written {v!r}')
    # repeated load of the same object gives an equal result
    if case.get('reload'):
        r.cls('reload')
        with r.lib('reload'):
            net2 = load_network(desc)
            if net2 != net:
                r.fail('reload-differs', 'second load of the same description differs from the first')
    if case.get('file'):
        r.cls('from-json-file')
        import tempfile, os
        from CircuitCalculator.Network.loaders import load_network_from_json
        with tempfile.TemporaryDirectory() as d:
            p = os.path.join(d, 'n.json')
            with open(p, 'w') as f:
                json.dump(before, f)
            with r.lib('load_network_from_json'):
                net3 = load_network_from_json(p)
                if net3 != net:
                    r.fail('file-load-differs', 'load_network_from_json differs from load_network of the same data')


finite = st.floats(-1e6, 1e6, allow_nan=False, allow_infinity=False, width=64)
nz = st.one_of(gen.signed_real(-3, 4), st.integers(1, 1000), st.integers(-1000, -1))
posv = st.one_of(gen.pos_real(-3, 4), st.integers(1, 1000))


@st.composite
def cenc(draw, nonzero=True, degree=False):
    """a complex number in one of the notations the loader documents"""
    mode = draw(st.integers(0, 2 if degree else 1))
    if mode == 0:
        re, im = draw(nz), draw(st.one_of(st.just(0), nz))
        return {'real': re, 'imag': im}
    a = draw(posv)
    if mode == 1:
        return {'abs': a, 'phase': draw(st.one_of(st.sampled_from([0, 1, -1, math.pi / 2, math.pi]), st.floats(-7, 7, allow_nan=False)))}
    return {'abs': a, 'phase_deg': draw(st.one_of(st.sampled_from([0, 90, -90, 180, 45, 360]), st.floats(-400, 400, allow_nan=False)))}


@st.composite
def net_entry(draw, kind, eid, n1, n2):
    e = {'type': kind, 'id': eid, 'N1': n1, 'N2': n2}
    if kind == 'resistor':
        e['R'] = draw(posv)
    elif kind == 'conductor':
        e['G'] = draw(posv)
    elif kind == 'impedance':
        e['Z'] = draw(cenc())
    elif kind == 'admittance':
        e['Y'] = draw(cenc())
    elif kind == 'linear_current_source':
        e['I'] = draw(cenc()); e['Y'] = draw(cenc())
    elif kind == 'current_source':
        e['I'] = draw(cenc())
    elif kind == 'real_current_source':
        e['I'] = draw(nz)
        if draw(st.booleans()):
            e['Y'] = draw(posv)
    elif kind == 'linear_voltage_source':
        e['V'] = draw(cenc()); e['Z'] = draw(cenc())
    elif kind == 'voltage_source':
        e['V'] = draw(cenc())
    elif kind == 'real_voltage_source':
        e['V'] = draw(nz)
        if draw(st.booleans()):
            e['Z'] = draw(posv)
    # random key order: the loader must not depend on it
    keys = draw(st.permutations(list(e)))
    return {k: e[k] for k in keys}


@st.composite
def net_case(draw):
    n = draw(st.integers(1, 6))
    kinds = [draw(st.sampled_from(NET_KINDS)) for _ in range(n)]
    ids = draw(gen.labels(n))
    nodes = ['0'] + draw(st.lists(gen.label.filter(lambda s: s != '0'), min_size=1, max_size=4, unique=True))
    desc = []
    for i, (k, eid) in enumerate(zip(kinds, ids)):
        a = nodes[0] if i == 0 else draw(st.sampled_from(nodes))
        b = draw(st.sampled_from([x for x in nodes if x != a]))
        if draw(st.booleans()):
            a, b = b, a
        if i > 0 and draw(st.integers(0, 9)) == 0:
            b = a                       # an element written with both terminals on one node is still that element
        desc.append(draw(net_entry(k, eid, a, b)))
    return {'desc': desc, 'reload': draw(st.booleans()), 'file': draw(st.integers(0, 7)) == 0}


# ---- complex notations ------------------------------------------------------------------------------------------------

def check_notation(case, r: R):
    from CircuitCalculator.Network.loaders import to_complex
    from CircuitCalculator import dump_load
    a, ph = case['abs'], case['phase']
    z = a * complex(math.cos(ph), math.sin(ph))
    r.nt(a != 0 and ph != 0)
    forms = {
        'cartesian': ({'real': z.real, 'imag': z.imag}, False),
        'polar-rad': ({'abs': a, 'phase': ph}, False),
        'polar-deg': ({'abs': a, 'phase': math.degrees(ph)}, True),
    }
    tol = 1e-12 * (1 + abs(ph))
    for name, (enc, deg) in forms.items():
        r.cls(name)
        before = snap(enc)
        with r.lib(f'to_complex[{name}]'):
            got = to_complex(enc, degree=deg) if deg else to_complex(enc)
            if not close(got, z, tol):
                r.fail('notation-disagrees', f'{name}: {before} -> {got!r}, cartesian form is {z!r}')
            if not same(enc, before):
                r.fail('argument-mutated', f'to_complex[{name}] changed its argument {before} -> {enc}')
            got2 = to_complex(enc, degree=deg) if deg else to_complex(enc)
            if not close(got2, got, 1e-15):
                r.fail('reload-differs', f'to_complex[{name}] twice on the same object: {got!r} then {got2!r}')
    # the generic document loader's three notations
    docs = {'cartesian': {'real': z.real, 'imag': z.imag}, 'polar-rad': {'abs': a, 'phase': ph}, 'polar-deg': {'abs': a, 'phase_deg': math.degrees(ph)}}
    for name, enc in docs.items():
        doc = {'x': enc, 'l': [snap(enc)], 'd': {'y': snap(enc)}}
        before = snap(doc)
        with r.lib(f'undictify[{name}]'):
            out = dump_load.deserialize(json.dumps(doc), 'json')
            for where, got in (('top', out['x']), ('list', out['l'][0]), ('dict', out['d']['y'])):
                if not isinstance(got, complex):
                    r.fail('complex-not-restored', f'{name} at {where}: {got!r}')
                elif not close(got, z, tol):
                    r.fail('notation-disagrees', f'document {name} at {where}: {got!r} vs {z!r}')


def check_mixed_notations(case, r: R):
    """several complex numbers in different notations side by side in one dictionary / one list, in every order:
    each must load to its own value, whatever its siblings look like"""
    from CircuitCalculator import dump_load
    from CircuitCalculator.Circuit.dump_load import undictify_circuit
    import itertools
    vals = case['values']          # [(abs, phase_rad)] x 3
    encs, want = [], []
    for k, (a, ph) in enumerate(vals):
        z = a * complex(math.cos(ph), math.sin(ph))
        form = case['forms'][k % len(case['forms'])]
        encs.append({'cart': {'real': z.real, 'imag': z.imag}, 'rad': {'abs': a, 'phase': ph}, 'deg': {'abs': a, 'phase_deg': math.degrees(ph)}}[form])
        want.append(z)
    r.nt(len(set(case['forms'])) >= 2)
    r.cls('mixed-' + '+'.join(sorted(set(case['forms']))))
    order = case['order']
    keys = ['V', 'Z', 'x']
    doc = {keys[i]: snap(encs[i]) for i in order}
    doc['l'] = [snap(encs[i]) for i in order]
    before = snap(doc)
    tol_ = 1e-12
    with r.lib('undictify[mixed]'):
        out = dump_load.deserialize(json.dumps(doc), 'json')
        for pos, i in enumerate(order):
            for where, got in ((f'key {keys[i]}', out[keys[i]]), (f'list item {pos}', out['l'][pos])):
                if not isinstance(got, complex) or not close(got, want[i], tol_ * (1 + abs(vals[i][1]))):
                    r.fail('notation-depends-on-siblings', f'{where}: {encs[i]} loaded as {got!r}, denotes {want[i]!r}; document order {[case["forms"][j % len(case["forms"])] for j in order]}')
        out2 = dump_load.undictify_all_complex_values(doc)
        if not same(doc, before):
            r.fail('argument-mutated', 'undictify_all_complex_values changed its argument')
    # the same through the circuit loader: a source value and its internal impedance in different notations
    cdoc = {'components': [{'type': 'complex_voltage_source', 'id': 'V1', 'nodes': ['a', 'b'], 'value': {k: snap(encs[i]) for k, i in zip(('V', 'Z'), order[:2])}}]}
    with r.lib('undictify_circuit[mixed]'):
        c = undictify_circuit(cdoc)
        v = c.components[0].value
        gotV, gotZ = complex(v['V_real'], v['V_imag']), complex(v['R'], v['X'])
        for nm, got, i in (('V', gotV, order[0]), ('Z', gotZ, order[1])):
            if not close(got, want[i], tol_ * (1 + abs(vals[i][1]))):
                r.fail('notation-depends-on-siblings', f'circuit loader {nm}: {encs[i]} loaded as {got!r}, denotes {want[i]!r}')


@st.composite
def mixed_case(draw):
    vals = [[draw(posv), draw(st.sampled_from([0.6, 1.0, -2.0, 0.3, 2.5, -0.7]))] for _ in range(3)]
    return {'values': vals, 'forms': draw(st.lists(st.sampled_from(['cart', 'rad', 'deg']), min_size=3, max_size=3)),
            'order': list(draw(st.permutations([0, 1, 2])))}


@st.composite
def notation_case(draw):
    return {'abs': draw(posv), 'phase': draw(st.one_of(st.sampled_from([0.0, math.pi / 2, -math.pi / 2, math.pi, 1.0]), st.floats(-7, 7, allow_nan=False)))}


# ---- nested documents ----------------------------------------------------------------------------------------------------

RESERVED = [{'real', 'imag'}, {'abs', 'phase'}, {'abs', 'phase_deg'}]


def encode(x):
    """JSON-able case form of a document with complex leaves"""
    if isinstance(x, complex):
        return {'__c__': [x.real, x.imag]}
    if isinstance(x, dict):
        return {k: encode(v) for k, v in x.items()}
    if isinstance(x, list):
        return [encode(v) for v in x]
    return x


def decode(x):
    if isinstance(x, dict):
        if set(x) == {'__c__'}:
            return complex(*x['__c__'])
        return {k: decode(v) for k, v in x.items()}
    if isinstance(x, list):
        return [decode(v) for v in x]
    return x


def to_notation(x):
    """the document with every complex leaf written in the documented {'real','imag'} form"""
    if isinstance(x, complex):
        return {'real': x.real, 'imag': x.imag}
    if isinstance(x, dict):
        return {k: to_notation(v) for k, v in x.items()}
    if isinstance(x, list):
        return [to_notation(v) for v in x]
    return x


def deep_equal(a, b):
    if type(a) is not type(b):
        if isinstance(a, (int, float)) and isinstance(b, (int, float)) and not isinstance(a, bool) and not isinstance(b, bool):
            return a == b
        return False
    if isinstance(a, dict):
        return a.keys() == b.keys() and all(deep_equal(a[k], b[k]) for k in a)
    if isinstance(a, list):
        return len(a) == len(b) and all(deep_equal(x, y) for x, y in zip(a, b))
    return a == b


def has_nested_complex(x, depth=0):
    if isinstance(x, complex):
        return depth >= 2
    if isinstance(x, dict):
        return any(has_nested_complex(v, depth + 1) for v in x.values())
    if isinstance(x, list):
        return any(has_nested_complex(v, depth + 1) for v in x)
    return False


def check_document(case, r: R):
    from CircuitCalculator import dump_load
    doc = decode(case['doc'])
    fmt = case['fmt']
    r.cls(f'format={fmt}')
    r.nt(has_nested_complex(doc))
    flat = canon(case['doc'])
    if '__c__' in flat:
        r.cls('complex-leaf')
    if '[]' in flat or '{}' in flat:
        r.cls('empty-container')
    before = snap(doc)
    text = None
    with r.lib(f'serialize[{fmt}]'):
        text = dump_load.serialize(doc, fmt)
    if not deep_equal(doc, before):
        r.fail('argument-mutated', f'serialize changed its argument')
    if text is None:
        return
    back = None
    with r.lib(f'deserialize[{fmt}]'):
        back = dump_load.deserialize(text, fmt)
    if back is None:
        return
    if not deep_equal(back, before):
        r.fail('round-trip', f'{fmt}: wrote {before!r} read {back!r}'[:400])
    # loading the description dictionary directly (complex values in their dictionary form) must not edit it
    enc = to_notation(before)
    enc0 = snap(enc)
    with r.lib('undictify_all_complex_values'):
        out = dump_load.undictify_all_complex_values(enc)
        if not deep_equal(enc, enc0):
            r.fail('argument-mutated', 'undictify_all_complex_values changed its argument')
        if not deep_equal(out, before):
            r.fail('round-trip', f'undictify_all_complex_values(dictionary form) differs from the document'[:300])
        out2 = dump_load.undictify_all_complex_values(enc)
        if not deep_equal(out2, out):
            r.fail('reload-differs', 'second undictify_all_complex_values of the same object differs')
    # a second identical load gives the same result; file based dump/load agrees
    with r.lib(f'deserialize-again[{fmt}]'):
        if not deep_equal(dump_load.deserialize(text, fmt), back):
            r.fail('reload-differs', 'deserialize of the same text differs')
    if case.get('file'):
        import tempfile, os
        r.cls('file')
        with tempfile.TemporaryDirectory() as d:
            p = os.path.join(d, 'doc.' + ('yml' if fmt == 'yaml' and case.get('yml') else fmt))
            with r.lib('dump/load'):
                dump_load.dump(p, snap(before))
                if not deep_equal(dump_load.load(p), before):
                    r.fail('file-round-trip', f'{os.path.basename(p)}')


key = st.one_of(st.sampled_from(['a', 'b', 'value', 'Z', 'V', 'real', 'imag', 'abs', 'phase', 'phase_deg', 'type', 'id', 'x y', 'ä', '0', '1']),
                st.text(alphabet='abcdeXYZ_1', min_size=1, max_size=3))
scalar = st.one_of(st.integers(-1000, 1000), finite, st.booleans(), st.none(), st.sampled_from(['', 'text', 'real', '1', 'yes', 'null', 'ü', '1e5', '~', 'j']),
                   gen.signed_real(-3, 4))
cleaf = st.builds(complex, finite, finite)


def not_reserved(d):
    return set(d) not in RESERVED


def document():
    leaves = st.one_of(scalar, cleaf, cleaf)
    inner = st.recursive(leaves, lambda ch: st.one_of(st.lists(ch, max_size=4), st.dictionaries(key, ch, max_size=4).filter(not_reserved)), max_leaves=14)
    return st.dictionaries(key, inner, max_size=5).filter(not_reserved)


@st.composite
def document_case(draw):
    return {'doc': encode(draw(document())), 'fmt': draw(st.sampled_from(['json', 'yaml'])), 'file': draw(st.integers(0, 5)) == 0, 'yml': draw(st.booleans())}


# ---- circuit descriptions -------------------------------------------------------------------------------------------------

def cir_expected(e):
    """the component the description must load into, written from the constructor documentation (type, id, nodes, value)"""
    v, t = e['value'], e['type']
    if t == 'resistor':
        val = {'R': v['R']}
    elif t == 'conductance':
        val = {'G': v['G']}
    elif t == 'impedance':
        val = {'R': v['Z'].real, 'X': v['Z'].imag}
    elif t == 'admittance':
        val = {'G': v['Y'].real, 'B': v['Y'].imag}
    elif t == 'dc_voltage_source':
        val = {'V': v['V'], 'R': v.get('R', 0), 'w': 0, 'phi': 0}
    elif t == 'ac_voltage_source':
        val = {'V': v['V'], 'R': v.get('R', 0), 'w': v.get('w', 0), 'phi': v.get('phi', 0)}
    elif t == 'complex_voltage_source':
        Z = v.get('Z', 0j)
        val = {'V_real': v['V'].real, 'V_imag': v['V'].imag, 'R': Z.real, 'X': Z.imag}
    elif t == 'dc_current_source':
        val = {'I': v['I'], 'G': v.get('G', 0), 'w': 0, 'phi': 0}
    elif t == 'ac_current_source':
        val = {'I': v['I'], 'G': v.get('G', 0), 'w': v.get('w', 0), 'phi': v.get('phi', 0)}
    elif t == 'complex_current_source':
        Y = v.get('Y', 0j)
        val = {'I_real': v['I'].real, 'I_imag': v['I'].imag, 'G': Y.real, 'B': Y.imag}
    else:
        raise ValueError(t)
    return t, e['id'], list(e['nodes']), val


def check_circuit_load(case, r: R):
    from CircuitCalculator.Circuit import dump_load as cdl
    desc = decode(case['desc'])
    kinds = {e['type'] for e in desc['components']}
    r.cls(*[f'kind={k}' for k in kinds])
    r.nt(len(kinds) >= 2)
    before = snap(desc)
    circuit = None
    with r.lib('undictify_circuit'):
        circuit = cdl.undictify_circuit(desc)
    if not deep_equal(desc, before):
        r.fail('argument-mutated', 'undictify_circuit changed its argument')
    if circuit is None:
        return
    if len(circuit.components) != len(before['components']):
        return r.fail('component-count', f'{len(circuit.components)} for {len(before["components"])} entries')
    for e, c in zip(before['components'], circuit.components):
        t, i, nodes, val = cir_expected(e)
        if c.type != t or c.id != i or list(c.nodes) != nodes:
            r.fail('id-type-or-terminals', f'{t} {i!r} {nodes} loaded as {c.type} {c.id!r} {list(c.nodes)}')
        if set(c.value) != set(val) or any(not close(c.value[k], val[k], 0) for k in val):
            r.fail('component-value', f'{t} {i!r}: loaded {c.value} written {val}')
    with r.lib('generate_component'):
        for e0, c in zip(before['components'], circuit.components):
            e = snap(e0)
            c2 = cdl.generate_component(e)
            if not deep_equal(e, e0):
                r.fail('argument-mutated', 'generate_component changed its argument')
            if c2 != c:
                r.fail('reload-differs', f'generate_component({e0["id"]!r}) differs from undictify_circuit')
    with r.lib('undictify_circuit-again'):
        c4 = cdl.undictify_circuit(desc)
        if c4 != circuit:
            r.fail('reload-differs', 'second undictify_circuit of the same object differs')
    # the same description as text (complex values in the documented dictionary notation)
    if case.get('text'):
        fmt = case['text']
        r.cls(f'text-{fmt}')
        tdoc = {'components': [dict(e, value={k: ({'real': x.real, 'imag': x.imag} if isinstance(x, complex) else x) for k, x in e['value'].items()})
                               for e in before['components']]}
        import yaml
        text = json.dumps(tdoc) if fmt == 'json' else yaml.safe_dump(tdoc)
        with r.lib(f'deserialize-text[{fmt}]'):
            c3 = cdl.deserialize(text, fmt)
            if [(c.type, c.id, list(c.nodes), c.value) for c in c3.components] != [(c.type, c.id, list(c.nodes), c.value) for c in circuit.components]:
                r.fail('text-load-differs', f'{fmt} text loads differently from the dictionary')


@st.composite
def cir_entry(draw, kind, cid, nodes):
    cz = st.builds(complex, gen.pos_real(-2, 4), st.one_of(st.just(0.0), gen.signed_real(-2, 4)))
    cs = st.builds(complex, gen.signed_real(), st.one_of(st.just(0.0), gen.signed_real()))
    # zero is a legal value of every entry (0 Ohm jumper, source switched off, ...): one draw in eight
    zero = draw(st.integers(0, 7)) == 0
    if zero:
        posv = nz = st.sampled_from([0, 0.0])
        cz = cs = st.sampled_from([0j, complex(0.0, 0.0)])
    else:
        posv, nz = globals()['posv'], globals()['nz']
    v = {}
    if kind == 'resistor':
        v = {'R': draw(posv)}
    elif kind == 'conductance':
        v = {'G': draw(posv)}
    elif kind == 'impedance':
        v = {'Z': draw(cz)}
    elif kind == 'admittance':
        v = {'Y': draw(cz)}
    elif kind in ('dc_voltage_source', 'ac_voltage_source'):
        v = {'V': draw(nz)}
        if draw(st.booleans()):
            v['R'] = draw(posv)
        if kind == 'ac_voltage_source':
            if draw(st.booleans()):
                v['w'] = draw(posv)
            if draw(st.booleans()):
                v['phi'] = draw(st.floats(-7, 7, allow_nan=False))
    elif kind in ('dc_current_source', 'ac_current_source'):
        v = {'I': draw(nz)}
        if draw(st.booleans()):
            v['G'] = draw(posv)
        if kind == 'ac_current_source':
            if draw(st.booleans()):
                v['w'] = draw(posv)
            if draw(st.booleans()):
                v['phi'] = draw(st.floats(-7, 7, allow_nan=False))
    elif kind == 'complex_voltage_source':
        v = {'V': draw(cs)}
        if draw(st.booleans()):
            v['Z'] = draw(cz)
    elif kind == 'complex_current_source':
        v = {'I': draw(cs)}
        if draw(st.booleans()):
            v['Y'] = draw(cz)
    e = {'type': kind, 'id': cid, 'nodes': nodes, 'value': v}
    keys = draw(st.permutations(list(e)))
    return {k: e[k] for k in keys}


@st.composite
def cir_case(draw):
    n = draw(st.integers(1, 6))
    ids = draw(gen.labels(n))
    nodes = draw(st.lists(gen.label, min_size=2, max_size=4, unique=True))
    comps = []
    for cid in ids:
        a = draw(st.sampled_from(nodes))
        b = draw(st.sampled_from([x for x in nodes if x != a]))
        comps.append(draw(cir_entry(draw(st.sampled_from(CIR_KINDS)), cid, [a, b])))
    return {'desc': encode({'components': comps}), 'text': draw(st.sampled_from([None, 'json', 'yaml']))}


TESTS = [
    Test('network-load', check_network_load, strategy=net_case, quick=3000, thorough=60000),
    Test('notation', check_notation, strategy=notation_case, quick=1500, thorough=20000),
    Test('mixed-notations', check_mixed_notations, strategy=mixed_case, quick=1000, thorough=10000),
    Test('document', check_document, strategy=document_case, quick=3000, thorough=60000),
    Test('circuit-load', check_circuit_load, strategy=cir_case, quick=2000, thorough=40000),
]
