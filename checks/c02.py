"""C02 - DC/AC phasor analysis of component circuits is exact at every frequency."""
from __future__ import annotations
import math
from hypothesis import strategies as st
from vlib.core import Test, R
from vlib import gen, circuits as cc, refsolve as rs, tol

PROPERTY = 'C02'
LEVEL = 'exploration'
RULE = ('random RLC(+G/Z/Y/lamp/load) circuits with DC and sinusoidal sources (2-6 nodes, <=10 components, ground component or '
        'implicit ground, adversarial labels) x analysis frequency from {0, each source frequency, just inside/outside the '
        'resolution, random} x peak/RMS; oracle = exact tableau solution of the phasor network given by an independent '
        'component table. Non-trivial = well posed with >= 1 reactive element and >= 1 active source (or w=0 with a reactive '
        'element); distinct = case hash.')
ASSUMPTIONS = ['sources with internal R/G that are inactive at the analysed frequency are not judged (statement, physics and code disagree)',
               'condition number guard 1e8; frequencies within 1e-6 relative of the resolution boundary are not judged']

SQ2 = math.sqrt(2)


def prepare(case, r: R):
    """(network spec, exact solution, scales) or None after recording the rejection"""
    spec, w = case['circuit'], case['w']
    try:
        net = cc.network_of(spec, w)
    except cc.Boundary:
        r.reject('frequency at an activation boundary')
        return None
    for c in spec['components']:
        if cc.is_lossy_source(c):
            ws = cc.source_frequency(c)
            if ws is not None and abs(w - ws) > 1e-3:
                r.reject('inactive lossy source')
                return None
    ref = rs.solve(net)
    if ref is None:
        r.reject('ill-posed')
        return None
    if not rs.well_conditioned(net, tol.KAPPA_MAX):
        r.reject('ill-conditioned')
        return None
    return net, ref, tol.scales(net, ref)


def classify(case, net, r: R):
    spec, w = case['circuit'], case['w']
    kinds = [c['kind'] for c in spec['components']]
    reactive = any(k in ('capacitor', 'inductance') for k in kinds)
    active = [b for b in net['branches'] if rs.law(b)[2]]
    r.nt(reactive and (len(active) >= 1 or w == 0))
    r.cls('w=0' if w == 0 else 'w>0')
    ws = sorted({cc.source_frequency(c) for c in spec['components'] if cc.source_frequency(c) is not None})
    if len(ws) >= 2:
        r.cls('sources-at-different-w')
    if any(0 < abs(w - x) <= 1e-3 for x in ws):
        r.cls('inside-resolution')
    if any(1e-3 < abs(w - x) <= 3e-3 for x in ws):
        r.cls('just-outside-resolution')
    for k in ('conductance', 'admittance', 'lamp', 'resistive_load', 'impedance'):
        if k in kinds:
            r.cls(f'has-{k}')
    r.cls('implicit-ground' if 'ground' not in kinds else 'ground-component')
    if case.get('peak'):
        r.cls('peak')


def _check_phasor_one(case, r: R):
    from CircuitCalculator.Circuit.solution import ComplexSolution, DCSolution
    p = prepare(case, r)
    if p is None:
        return
    net, ref, (S_phi, S_I) = p
    classify(case, net, r)
    exp = rs.reports(net, ref)
    w, peak = case['w'], case['peak']
    k = 1.0 if peak else 1 / SQ2
    sol = None
    with r.lib('ComplexSolution'):
        sol = ComplexSolution(cc.lib_circuit(case['circuit']), w=w, peak_values=peak)
    if sol is not None:
        for n in rs.nodes_of(net):
            with r.lib('get_potential'):
                v = sol.get_potential(n)
                if not tol.close(v, complex(ref['phi'][n]) * k, S_phi):
                    r.fail('potential', f'node {n!r}: lib {v} exact {complex(ref["phi"][n]) * k}')
        for b in net['branches']:
            e = exp[b['id']]
            with r.lib('get_voltage'):
                v = sol.get_voltage(b['id'])
                if not tol.close(v, complex(e['V']) * k, S_phi):
                    r.fail('voltage', f'{b["id"]!r} ({b["kind"]}): lib {v} exact {complex(e["V"]) * k}')
            with r.lib('get_current'):
                i = sol.get_current(b['id'])
                if not tol.close(i, complex(e['I']) * k, S_I[b['id']]):
                    r.fail('current', f'{b["id"]!r} ({b["kind"]}): lib {i} exact {complex(e["I"]) * k}')
    if w == 0:
        dc = None
        with r.lib('DCSolution'):
            dc = DCSolution(cc.lib_circuit(case['circuit']))
        if dc is not None:
            r.cls('dc-solution')
            for n in rs.nodes_of(net):
                with r.lib('dc.get_potential'):
                    v = dc.get_potential(n)
                    if isinstance(v, complex) or not tol.close(v, complex(ref['phi'][n]).real, S_phi):
                        r.fail('dc-potential', f'node {n!r}: lib {v!r} exact {complex(ref["phi"][n]).real}')
            for b in net['branches']:
                e = exp[b['id']]
                with r.lib('dc.get_voltage/current'):
                    v, i = dc.get_voltage(b['id']), dc.get_current(b['id'])
                    if not tol.close(v, complex(e['V']).real, S_phi):
                        r.fail('dc-voltage', f'{b["id"]!r}: lib {v} exact {complex(e["V"]).real}')
                    if not tol.close(i, complex(e['I']).real, S_I[b['id']]):
                        r.fail('dc-current', f'{b["id"]!r}: lib {i} exact {complex(e["I"]).real}')


@st.composite
def phasor_case(draw, min_sources=1):
    w_pool = draw(st.lists(cc.freq, min_size=1, max_size=2, unique=True))
    spec = draw(cc.circuit(2, 6, 10, w_pool=w_pool, lossy_prob=0, min_sources=min_sources, forced_lossy=False,
                           passive=cc.PASSIVE + ['capacitor', 'capacitor', 'inductance', 'inductance', 'resistor']))
    present = sorted({cc.source_frequency(c) for c in spec['components'] if cc.source_frequency(c) is not None}) or [0.0]
    ws = draw(st.sampled_from(present))
    mode = draw(st.integers(0, 7))
    if mode <= 3:
        w = ws                                   # a frequency at which some source of this circuit is active
    elif mode == 4:
        w = 0.0
    elif mode == 5:
        w = max(0.0, ws + draw(st.sampled_from([0.5, 0.999, 1.001, 2.0, -0.5, -0.999, -1.001, -2.0])) * 1e-3)
    elif mode == 6:
        w = draw(st.sampled_from(w_pool))
    else:
        w = draw(cc.freq)
    # sources are lossy only if they are active at the analysed frequency (see ASSUMPTIONS)
    for c in spec['components']:
        if c['kind'] in cc.SOURCE_KINDS and draw(st.integers(0, 2)) == 0:
            wsrc = cc.source_frequency(c)
            if wsrc is not None and abs(w - wsrc) <= 0.4e-3:
                if 'voltage' in c['kind']:
                    c['args']['R'] = draw(gen.pos_real(-2, 3))
                else:
                    c['args']['G'] = draw(gen.pos_real(-4, 1))
    return {'circuit': spec, 'w': w, 'peak': draw(st.booleans())}


def check_phasor(case, r: R):
    """the case itself, then - in the same process - its value-perturbed twin (same names, topology, listing order):
    a result that is cached or keyed by structure instead of by value shows up on the second evaluation"""
    _check_phasor_one(case, r)
    if r.failures:
        return
    first_rejected, r.rejected = r.rejected, None
    twin = dict(case)
    twin['circuit'] = gen.twin_circuit(case['circuit'])
    sub = R()
    _check_phasor_one(twin, sub)
    for s_, d_ in sub.failures:
        r.fail('twin:' + s_, d_)
    r.rejected = first_rejected


TESTS = [
    Test('phasor', check_phasor, strategy=phasor_case, quick=8000, thorough=120000),
]
