"""C06 - port behaviour: driving-point impedance and Thevenin/Norton equivalents."""
from __future__ import annotations
import copy, math
from hypothesis import strategies as st
from vlib.core import Test, R
from vlib import gen, refsolve as rs, tol, circuits as cc
from vlib.exact import GQ

PROPERTY = 'C06'
LEVEL = 'exploration'
RULE = ('random networks of C01 (incl. ideal voltage sources, shorts, opens, floating parts) x every kind of port query: ordered node '
        'pair, element, second reference node, load impedance; random RLC circuits x frequency sweep (incl. w=0 where inductors are '
        'shorts and capacitors opens). Oracle: exact unit-test-current port impedance with sources deactivated (infinite when the '
        'port is disconnected), symmetry / reference independence / series-shunt composition relations, loaded-port solution '
        'V = Voc*ZL/(Zth+ZL), Isc = Voc/Zth, equivalent-source objects, circuit-level wrappers. Non-trivial = >= 3 branches, port '
        'not directly across a single element, finite non-zero exact impedance; distinct = case hash.')
ASSUMPTIONS = ['ports whose exact impedance is undefined (lossless resonance, singular) are not judged', 'condition guard 1e8',
               'an infinite port impedance may be reported as inf or as a value of magnitude > 1e12 times the largest branch impedance']


def is_inf(z) -> bool:
    try:
        z = complex(z)
    except (TypeError, ValueError):
        return False
    return math.isinf(z.real) or math.isinf(z.imag) or math.isnan(z.real)


def zscale(net) -> float:
    s = 0.0
    for b in net['branches']:
        y = rs.admittance_of(rs.deactivate(b))
        if y is not None and y:
            s = max(s, 1 / abs(complex(y)))
    # zero-impedance branches enter the (un-equilibrated) modified nodal matrix with entries of 1 next to the
    # admittances in siemens: the library's rounding residue is then absolute on a 1-Ohm scale, however small the
    # impedances of the remaining branches are (an exactly shorted port came back as 2e-16 Ohm beside a 1.5e-4 Ohm branch)
    if any(rs.admittance_of(rs.deactivate(b)) is None for b in net['branches']):
        s = max(s, 1.0)
    return s or 1.0


def cond_ok(net, n1, n2) -> bool:
    """conditioning of the source-free, short-contracted part of the network that is connected to the port"""
    dead = {'ref': n2, 'branches': [rs.deactivate(b) for b in net['branches']]}
    con, m = rs.contract_shorts(dead)
    if n1 not in m or n2 not in m or m[n1] == m[n2]:
        return True
    live = [b for b in con['branches'] if not (rs.admittance_of(b) is not None and not rs.admittance_of(b))]
    comp = _component({'ref': m[n2], 'branches': live}, m[n2])
    if not comp['branches']:
        return True
    if rs.nodal_cond(comp) > tol.KAPPA_MAX:
        return False
    # the library works on the un-contracted network (shorts as voltage-source rows): a large admittance in parallel
    # with a short, harmless after contraction, ruins the conditioning there; ratio of the non-zero singular values
    raw = {'ref': n2, 'branches': [b for b in dead['branches'] if not (rs.admittance_of(b) is not None and not rs.admittance_of(b))]}
    return rs.nodal_cond(raw, pseudo=True) <= tol.KAPPA_MAX


def _component(net, root):
    adj = {}
    for b in net['branches']:
        adj.setdefault(b['n1'], set()).add(b['n2'])
        adj.setdefault(b['n2'], set()).add(b['n1'])
    seen, stack = {root}, [root]
    while stack:
        x = stack.pop()
        for y in adj.get(x, ()):
            if y not in seen:
                seen.add(y); stack.append(y)
    return {'ref': root, 'branches': [b for b in net['branches'] if b['n1'] in seen and b['n2'] in seen]}


def compare_z(r: R, sub, got, zx, scale, what):
    if zx == 'inf':
        if not (is_inf(got) or abs(complex(got)) > 1e12 * scale):
            r.fail(f'{sub}:disconnected-port-finite', f'{what}: lib {got!r}, port is disconnected (infinite)')
        return
    if is_inf(got):
        return r.fail(f'{sub}:infinite', f'{what}: lib {got!r} exact {complex(zx)}')
    if not tol.close(got, zx, max(abs(complex(zx)), 1e-4 * scale)):
        r.fail(sub, f'{what}: lib {got!r} exact {complex(zx)}')


def check_port(case, r: R):
    from CircuitCalculator.Network.NodalAnalysis.node_analysis import open_circuit_impedance, element_impedance
    from CircuitCalculator.Network.NodalAnalysis.bias_point_analysis import open_circuit_voltage, short_circuit_current
    from CircuitCalculator.Network import transformers as trf
    net = case['net']
    nodes = rs.nodes_of(net)
    n1 = nodes[case['port'][0] % len(nodes)]
    n2 = nodes[(case['port'][0] + case['port'][1]) % len(nodes)] if case['port'][1] else n1
    if case['port'][1] and n2 == n1:
        n2 = nodes[(case['port'][0] + 1) % len(nodes)]
    zx = rs.port_impedance(net, n1, n2)
    if zx is None:
        return r.reject('port impedance undefined (singular)')
    if not cond_ok(net, n1, n2):
        return r.reject('ill-conditioned')
    scale = zscale(net)
    direct = any({b['n1'], b['n2']} == {n1, n2} for b in net['branches'])
    finite = zx != 'inf'
    r.nt(len(net['branches']) >= 3 and not direct and finite and bool(zx))
    r.cls('port-disconnected' if not finite else ('port-impedance-zero' if not zx else 'port-impedance-finite'))
    if any(rs.admittance_of(rs.deactivate(b)) is None and {b['n1'], b['n2']} != {n1, n2} for b in net['branches']):
        r.cls('zero-impedance-branch-elsewhere')
    if net['ref'] in (n1, n2):
        r.cls('port-touches-reference')
    if any(b['kind'] == 'lini' for b in net['branches']):
        r.cls('lossy-current-source')
    if n1 == n2:
        r.cls('identical-nodes')
    N = None
    with r.lib('build'):
        N = rs.lib_network(net)
    if N is None:
        return
    z12 = z21 = None
    with r.lib('open_circuit_impedance'):
        z12 = open_circuit_impedance(N, n1, n2)
        compare_z(r, 'impedance-vs-exact', z12, zx, scale, f'{n1!r},{n2!r}')
    with r.lib('open_circuit_impedance[swapped]'):
        z21 = open_circuit_impedance(N, n2, n1)
        compare_z(r, 'impedance-not-symmetric', z21, zx, scale, f'{n2!r},{n1!r}')
    # independent of the reference node
    other = nodes[case['ref2'] % len(nodes)]
    with r.lib('open_circuit_impedance[other reference]'):
        z3 = open_circuit_impedance(trf.switch_ground_node(N, other), n1, n2)
        compare_z(r, 'impedance-depends-on-reference', z3, zx, scale, f'{n1!r},{n2!r} ref {other!r}')
    # element impedance = port impedance at the element's terminals with the element removed
    eb = net['branches'][case['elem'] % len(net['branches'])]
    rest = {'ref': net['ref'], 'branches': [b for b in net['branches'] if b['id'] != eb['id']]}
    if len(rest['branches']) >= 1 and net['ref'] in {x for b in rest['branches'] for x in (b['n1'], b['n2'])}:
        zex = rs.port_impedance(rest, eb['n1'], eb['n2'])
        if zex is not None and cond_ok(rest, eb['n1'], eb['n2']):
            r.cls('element-impedance')
            with r.lib('element_impedance'):
                ze = element_impedance(N, eb['id'])
                compare_z(r, 'element-impedance', ze, zex, scale, f'element {eb["id"]!r} ({eb["kind"]})')
    if not finite or n1 == n2:
        return
    # series / shunt composition at the port (metamorphic, exact values known)
    used = set(nodes) | {b['id'] for b in net['branches']}
    fresh = [x for x in ('x1', 'x2', 'x3', 'q7', 'q8') if x not in used]
    Zs = case['zs']
    ser = copy.deepcopy(net)
    ser['branches'].append({'id': fresh[0], 'n1': n1, 'n2': fresh[1], 'kind': 'impedance', 'p': {'Z': Zs}})
    with r.lib('series-composition'):
        zs_ = open_circuit_impedance(rs.lib_network(ser), fresh[1], n2)
        want = zx + rs.gq(Zs)
        # negative resistances are legal: a series element that cancels the port impedance to within rounding (or a shunt
        # admittance that cancels 1/Z) makes the composed network singular for any float solver - not judged
        if want and abs(complex(want)) > 1e-6 * (abs(complex(zx)) + abs(complex(*Zs))):
            compare_z(r, 'series-composition', zs_, want, scale + abs(complex(*Zs)), f'Z + {Zs}')
    if zx:
        Yp = case['yp']
        sh = copy.deepcopy(net)
        sh['branches'].append({'id': fresh[0], 'n1': n2, 'n2': n1, 'kind': 'admittance', 'p': {'Y': Yp}})
        den = GQ(1) / zx + rs.gq(Yp)
        if den and abs(complex(den)) > 1e-6 * (abs(complex(GQ(1) / zx)) + abs(complex(*Yp))):
            with r.lib('shunt-composition'):
                zp = open_circuit_impedance(rs.lib_network(sh), n1, n2)
                compare_z(r, 'shunt-composition', zp, GQ(1) / den, scale, f'Z || 1/{Yp}')
    # Thevenin equivalence: open-circuit voltage, short-circuit current, loaded port
    ref = rs.solve(net)
    if ref is None or not rs.well_conditioned(net, tol.KAPPA_MAX):
        return
    S_phi, S_I = tol.scales(net, ref)
    voc_x = ref['phi'][n1] - ref['phi'][n2]
    r.cls('thevenin')
    voc = None
    with r.lib('open_circuit_voltage'):
        voc = open_circuit_voltage(N, n1, n2)
        if not tol.close(voc, voc_x, S_phi):
            r.fail('open-circuit-voltage', f'lib {voc} exact {complex(voc_x)}')
    if zx:
        with r.lib('short_circuit_current'):
            isc = short_circuit_current(N, n1, n2)
            want = voc_x / zx
            if not tol.close(isc, want, max(abs(complex(want)), S_phi / abs(complex(zx)))):
                r.fail('short-circuit-current', f'lib {isc} exact {complex(want)}')
        with r.lib('equivalent-sources'):
            from CircuitCalculator.Network.equivalent_sources import TheveninEquivalentSource, NortenEquivalentSource
            th = TheveninEquivalentSource(N, n1, n2)
            no = NortenEquivalentSource(N, n1, n2)
            if not tol.close(th.U, voc_x, S_phi) or not tol.close(th.Z, zx, abs(complex(zx))):
                r.fail('thevenin-object', f'U={th.U} Z={th.Z}, exact U={complex(voc_x)} Z={complex(zx)}')
            if not tol.close(no.I, voc_x / zx, max(abs(complex(voc_x / zx)), S_phi / abs(complex(zx)))) or not tol.close(no.Y, GQ(1) / zx, abs(complex(GQ(1) / zx))):
                r.fail('norton-object', f'I={no.I} Y={no.Y}, exact I={complex(voc_x / zx)} Y={complex(GQ(1) / zx)}')
    # attach a real load branch and solve: V = Voc*ZL/(Zth+ZL)
    ZL = rs.gq(case['zl'])
    if (zx + ZL):
        loaded = copy.deepcopy(net)
        loaded['branches'].append({'id': fresh[2], 'n1': n1, 'n2': n2, 'kind': 'impedance', 'p': {'Z': case['zl']}})
        lref = rs.solve(loaded)
        if lref is not None and rs.well_conditioned(loaded, tol.KAPPA_MAX):
            want = voc_x * ZL / (zx + ZL)
            exact_v = lref['phi'][n1] - lref['phi'][n2]
            if abs(complex(want) - complex(exact_v)) > 1e-9 * (S_phi + abs(complex(want))):
                raise AssertionError('reference model inconsistent: Thevenin relation violated in exact arithmetic')
            r.cls('loaded-port')
            with r.lib('loaded-port'):
                from CircuitCalculator.Network.NodalAnalysis.bias_point_analysis import nodal_analysis_bias_point_solver
                sol = nodal_analysis_bias_point_solver(rs.lib_network(loaded))
                v = sol.get_voltage(fresh[2])
                if z12 is not None and voc is not None and not is_inf(z12):
                    pred = voc * complex(ZL) / (z12 + complex(ZL))
                    Ls, _ = tol.scales(loaded, lref)
                    if not tol.close(v, pred, max(S_phi, Ls)):
                        r.fail('thevenin-equivalence', f'loaded port voltage {v}, predicted from Voc and Zth {pred}')


@st.composite
def port_case(draw):
    net = draw(gen.network(nmin=3, nmax=6, max_branches=10, min_sources=1, opens_shorts=draw(st.integers(0, 2)) == 0, cplx=draw(st.integers(0, 3)) == 0))
    if draw(st.integers(0, 3)) == 0:
        # a node that hangs on the network only through an open branch, and a dangling passive stub
        nodes = rs.nodes_of(net)
        used = set(nodes) | {b['id'] for b in net['branches']}
        fresh = [l for l in draw(gen.labels(6)) if l not in used]
        if len(fresh) >= 4:
            net['branches'].append({'id': fresh[0], 'n1': draw(st.sampled_from(nodes)), 'n2': fresh[1], 'kind': 'open', 'p': {}})
            if draw(st.booleans()):
                net['branches'].append({'id': fresh[2], 'n1': fresh[1], 'n2': fresh[3], 'kind': 'resistor', 'p': {'R': draw(gen.pos_real(-1, 3))}})
    return {'net': net, 'port': [draw(st.sampled_from(range(10))), draw(st.sampled_from(list(range(1, 10)) * 2 + [0]))], 'ref2': draw(st.sampled_from(range(10))), 'elem': draw(st.sampled_from(range(20))),
            'zs': draw(gen.passive_complex(-1, 3)), 'yp': draw(gen.passive_complex(-3, 1)), 'zl': draw(gen.passive_complex(-1, 3))}


# ---- circuit level: sweeps -----------------------------------------------------------------------------------------

def check_sweep(case, r: R):
    import numpy as np
    from CircuitCalculator.Circuit import impedance as cimp
    spec, ws = case['circuit'], case['ws']
    circuit = None
    with r.lib('build'):
        circuit = cc.lib_circuit(spec)
    if circuit is None:
        return
    two = [c for c in spec['components'] if c['kind'] != 'ground']
    nodes = []
    for c in two:
        for n in c['nodes']:
            if n not in nodes:
                nodes.append(n)
    n1 = nodes[case['port'][0] % len(nodes)]
    n2 = nodes[(case['port'][0] + max(1, case['port'][1])) % len(nodes)]
    if n2 == n1:
        n2 = nodes[(case['port'][0] + 1) % len(nodes)]
    elem = two[case['elem'] % len(two)]
    exact, exact_e = [], []
    for w in ws:
        try:
            net = cc.network_of(spec, w)
        except cc.Boundary:
            return r.reject('frequency at an activation boundary')
        z = rs.port_impedance(net, n1, n2)
        rest = {'ref': net['ref'], 'branches': [b for b in net['branches'] if b['id'] != elem['id']]}
        ze = rs.port_impedance(rest, elem['nodes'][0], elem['nodes'][1]) if rest['branches'] else None
        if z is None or not cond_ok(net, n1, n2):
            return r.reject('port impedance undefined or ill-conditioned')
        if ze is not None and not cond_ok(rest, elem['nodes'][0], elem['nodes'][1]):
            ze = None
        exact.append((z, zscale(net)))
        exact_e.append((ze, zscale(net)))
    kinds = {c['kind'] for c in spec['components']}
    r.nt(len(two) >= 3 and bool(kinds & {'capacitor', 'inductance'}) and any(z != 'inf' and z for z, _ in exact))
    r.cls('sweep-has-w0' if 0.0 in ws else 'sweep-positive')
    if any(z == 'inf' for z, _ in exact):
        r.cls('port-disconnected-at-some-w')
    with r.lib('circuit.open_circuit_impedance'):
        got = cimp.open_circuit_impedance(circuit, n1, n2, np.array(ws))
        if len(got) != len(ws):
            r.fail('sweep-length', f'{len(got)} for {len(ws)}')
        for w, g, (z, sc) in zip(ws, got, exact):
            compare_z(r, 'sweep-impedance', g, z, sc, f'{n1!r},{n2!r} at w={w}')
    if all(z is not None for z, _ in exact_e):
        r.cls('element-sweep')
        with r.lib('circuit.element_impedance'):
            got = cimp.element_impedance(circuit, elem['id'], np.array(ws))
            for w, g, (z, sc) in zip(ws, got, exact_e):
                compare_z(r, 'sweep-element-impedance', g, z, sc, f'element {elem["id"]!r} at w={w}')
    # DC resistance wrappers = real part at w = 0
    try:
        net0 = cc.network_of(spec, 0.0)
    except cc.Boundary:
        return
    z0 = rs.port_impedance(net0, n1, n2)
    if z0 is not None and z0 != 'inf' and cond_ok(net0, n1, n2):
        with r.lib('open_circuit_dc_resistance'):
            got = cimp.open_circuit_dc_resistance(circuit, n1, n2)
            if isinstance(got, complex) or not tol.close(got, complex(z0).real, max(abs(complex(z0)), 1e-4 * zscale(net0))):
                r.fail('dc-resistance', f'{n1!r},{n2!r}: lib {got!r} exact {complex(z0).real}')


@st.composite
def sweep_case(draw):
    spec = draw(cc.circuit(2, 5, 8, lossy_prob=2, min_sources=0, forced_lossy=True,
                           passive=cc.PASSIVE + ['capacitor', 'capacitor', 'inductance', 'inductance']))
    ws = draw(st.lists(st.one_of(st.just(0.0), cc.freq), min_size=1, max_size=4, unique=True))
    return {'circuit': spec, 'ws': ws, 'port': [draw(st.sampled_from(range(10))), draw(st.sampled_from(range(1, 10)))], 'elem': draw(st.sampled_from(range(20)))}


TESTS = [
    Test('port', check_port, strategy=port_case, quick=3000, thorough=60000),
    Test('sweep', check_sweep, strategy=sweep_case, quick=1500, thorough=25000),
]
