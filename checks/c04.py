"""C04 - linearity and superposition of sources."""
from __future__ import annotations
import copy
from hypothesis import strategies as st
from vlib.core import Test, R
from vlib import gen, refsolve as rs, tol

PROPERTY = 'C04'
LEVEL = 'exploration'
RULE = ('well-posed random networks of C01 with >= 1 (mostly >= 2) sources x complex scale factor x partition of the source set; '
        'oracles: scaling relation (a, |a|^2), superposition through the library\'s own source-zeroing operations with an exemption '
        'list (sum of partial solutions = full solution, compared as physical currents I12), all-zero network has the zero '
        'solution, zeroing preserves ids/terminals/immittances, each partial solution against the exact reference of the '
        'independently deactivated spec. Non-trivial = >= 2 non-zero sources of which >= 1 linear or one of each type; '
        'distinct = case hash.')
ASSUMPTIONS = ['reference directions of DESIGN.md 0.1 (a zeroed linear source reports like a passive branch)', 'condition guard 1e8']

SRC = ('vsrc', 'isrc', 'linv', 'lini')


def solver():
    from CircuitCalculator.Network.NodalAnalysis.bias_point_analysis import nodal_analysis_bias_point_solver
    return nodal_analysis_bias_point_solver


def scaled(net, a):
    out = copy.deepcopy(net)
    for b in out['branches']:
        for k in ('V', 'I'):
            if b['kind'] in SRC and k in b['p']:
                z = complex(rs.cx(b['p'][k])) * complex(*a)
                b['p'][k] = [z.real, z.imag]
    return out


def partial(net, keep_ids):
    return {'ref': net['ref'], 'branches': [b if (b['kind'] not in SRC or b['id'] in keep_ids) else rs.deactivate(b) for b in net['branches']]}


def physical(net, sol, r: R, sub):
    """{'phi': {...}, 'V': {...}, 'I12': {...}, 'P': {...}} from a library solution, currents as I12"""
    out = {'phi': {}, 'V': {}, 'I12': {}, 'P': {}}
    with r.lib(sub):
        for n in rs.nodes_of(net):
            out['phi'][n] = sol.get_potential(n)
        for b in net['branches']:
            cls = rs.law(b)[3]
            out['V'][b['id']] = sol.get_voltage(b['id'])
            i = sol.get_current(b['id'])
            out['I12'][b['id']] = -i if cls == 'linear' else i
            out['P'][b['id']] = sol.get_power(b['id'])
        return out
    return None


def check_linearity(case, r: R):
    from CircuitCalculator.Network import transformers as trf
    net, a, parts = case['net'], case['a'], case['parts']
    ref = rs.solve(net)
    if ref is None:
        return r.reject('ill-posed')
    if not rs.well_conditioned(net, tol.KAPPA_MAX):
        return r.reject('ill-conditioned')
    S_phi, S_I = tol.scales(net, ref)
    srcs = [b for b in net['branches'] if b['kind'] in SRC]
    part_of = {b['id']: parts[i % len(parts)] for i, b in enumerate(srcs)}
    groups = sorted(set(part_of.values()))
    lin = any(b['kind'] in ('linv', 'lini') for b in srcs)
    types = {('V' if b['kind'] in ('vsrc', 'linv') else 'I') for b in srcs}
    r.nt(len(srcs) >= 2 and (lin or len(types) == 2))
    if lin:
        r.cls('linear-source')
    if a[1] != 0:
        r.cls('complex-factor')
    if abs(complex(*a)) < 1e-8:
        r.cls('tiny-factor')
    if case.get('keep_by_value'):
        r.cls('exemption-list-of-equal-copies')
    r.cls(f'parts={min(len(groups), 4)}', 'current-sources-zeroed-first' if case.get('order') else 'voltage-sources-zeroed-first')
    N = full = None
    with r.lib('solve'):
        N = rs.lib_network(net)
        full = solver()(N)
    if full is None:
        return
    base = physical(net, full, r, 'query')
    if base is None:
        return
    # (i) scaling
    snet = scaled(net, a)
    with r.lib('solve-scaled'):
        ssol = solver()(rs.lib_network(snet))
        sc = physical(snet, ssol, r, 'query-scaled')
        if sc is not None:
            A = complex(*a)
            for n, v in base['phi'].items():
                if not tol.close(sc['phi'][n], A * v, S_phi * abs(A), tol.RTOL_REL):
                    r.fail('scaling-potential', f'node {n!r}: {sc["phi"][n]} vs a*{v}')
            for i in base['V']:
                if not tol.close(sc['V'][i], A * base['V'][i], S_phi * abs(A), tol.RTOL_REL):
                    r.fail('scaling-voltage', f'{i!r}')
                if not tol.close(sc['I12'][i], A * base['I12'][i], S_I[i] * abs(A), tol.RTOL_REL):
                    r.fail('scaling-current', f'{i!r}: {sc["I12"][i]} vs a*{base["I12"][i]}')
                if not tol.close(sc['P'][i], abs(A) ** 2 * base['P'][i], S_phi * S_I[i] * abs(A) ** 2, tol.RTOL_REL):
                    r.fail('scaling-power', f'{i!r}: {sc["P"][i]} vs |a|^2*{base["P"][i]}')
    # (ii) superposition with the library's own zeroing operations and one shared exemption list per part
    acc = {'phi': {n: 0 for n in base['phi']}, 'V': {i: 0 for i in base['V']}, 'I12': {i: 0 for i in base['I12']}}
    ok = True
    for g in groups + ['none']:
        keep_ids = {i for i, p in part_of.items() if p == g}
        keep = [N[i].element for i in keep_ids]
        if case.get('keep_by_value'):
            # elements are frozen value objects: an equal element (re-created, loaded again) designates the same source
            keep = [copy.copy(e) for e in keep]
        keep_before = list(keep)
        pnet = partial(net, keep_ids)
        zn = None
        with r.lib('zeroing'):
            if case.get('order'):
                zn = trf.short_circuitify_voltage_sources(trf.open_circuitify_current_sources(N, keep=keep), keep=keep)
            else:
                zn = trf.open_circuitify_current_sources(trf.short_circuitify_voltage_sources(N, keep=keep), keep=keep)
        if zn is None:
            ok = False
            continue
        if keep != keep_before:
            r.fail('exemption-list-mutated', '')
        # (iv) structure: ids, terminals, immittances preserved; sources outside the part are zero
        if [(b.id, b.node1, b.node2) for b in zn.branches] != [(b['id'], b['n1'], b['n2']) for b in net['branches']]:
            r.fail('zeroing-changes-structure', f'{[(b.id, b.node1, b.node2) for b in zn.branches]}')
        else:
            for b, zb, pb in zip(net['branches'], zn.branches, pnet['branches']):
                el = zb.element
                a_, b_, c_, _ = rs.law(pb)
                with r.lib('zeroed-element'):
                    y = rs.admittance_of(pb)
                    if y is None:
                        good = el.Z == 0
                    elif not y:
                        good = el.Y == 0
                    else:
                        good = tol.close(el.Y, complex(y), abs(complex(y)), 1e-12)
                    if not good:
                        r.fail('zeroing-changes-immittance', f'{b["id"]!r} ({b["kind"]}): Z={el.Z!r} Y={el.Y!r}, expected Y={None if y is None else complex(y)}')
                    if b['kind'] in SRC and b['id'] not in keep_ids:
                        from CircuitCalculator.Network.elements import is_active
                        if is_active(el):
                            r.fail('source-not-zeroed', f'{b["id"]!r} ({b["kind"]})')
                    if b['kind'] in SRC and b['id'] in keep_ids and el != N[b['id']].element:
                        r.fail('exempted-source-changed', f'{b["id"]!r}')
        psol = None
        with r.lib('solve-partial'):
            psol = solver()(zn)
        if psol is None:
            ok = False
            continue
        ph = physical(pnet, psol, r, 'query-partial')
        if ph is None:
            ok = False
            continue
        if g == 'none':
            # (iii) everything deactivated: zero solution
            for n, v in ph['phi'].items():
                if not tol.close(v, 0, S_phi, tol.RTOL_REL):
                    r.fail('dead-network-not-zero', f'node {n!r}: {v}')
            for i, v in ph['I12'].items():
                if not tol.close(v, 0, S_I[i], tol.RTOL_REL):
                    r.fail('dead-network-not-zero', f'current {i!r}: {v}')
            continue
        # differential: the partial solution against the exact reference of the independently deactivated spec
        pref = rs.solve(pnet)
        if pref is not None:
            for n, v in ph['phi'].items():
                if not tol.close(v, pref['phi'][n], S_phi):
                    r.fail('partial-vs-exact', f'part {g}: node {n!r}: lib {v} exact {complex(pref["phi"][n])}')
            for i, v in ph['I12'].items():
                if not tol.close(v, pref['I'][i], S_I[i]):
                    r.fail('partial-vs-exact', f'part {g}: current {i!r}: lib {v} exact {complex(pref["I"][i])}')
        # the removing variants of the same deactivation (sources contracted / deleted instead of zeroed in place):
        # every node label and branch id that survives must carry the same partial response
        if pref is not None and case.get('removal_route'):
            rn = None
            with r.lib('passive_network'):
                rn = trf.passive_network(N, keep=keep)
            if rn is not None and rn.node_zero_label == net['ref']:
                # contraction may leave two parallel shorts behind (electrically exact, C16): that network has a
                # zero-impedance loop, individual currents are indeterminate and the float solver falls back to zeros
                by_id = {b['id']: b for b in pnet['branches']}
                left_spec = {'ref': rn.node_zero_label, 'branches': [dict(by_id[b.id], n1=b.node1, n2=b.node2) for b in rn.branches if b.id in by_id]}
                if len(left_spec['branches']) != len(rn.branches) or rs.solve(left_spec) is None:
                    r.cls('removal-route-result-not-uniquely-solvable')
                    rn = None
            if rn is not None and rn.node_zero_label == net['ref']:
                r.cls('removal-route-compared')
                rsol = None
                with r.lib('solve-removed'):
                    rsol = solver()(rn)
                if rsol is not None:
                    with r.lib('query-removed'):
                        left = {b.id for b in rn.branches}
                        for n_ in rn.node_labels:
                            if n_ in ph['phi'] and not tol.close(rsol.get_potential(n_), ph['phi'][n_], S_phi, tol.RTOL_REL * 10):
                                r.fail('removal-route-potential', f'part {g}: node {n_!r}: after passive_network {rsol.get_potential(n_)}, zeroed in place {ph["phi"][n_]}')
                        for b in pnet['branches']:
                            if b['id'] in left and rs.admittance_of(b) is not None:
                                i_ = rsol.get_current(b['id'])
                                i_ = -i_ if rs.law(b)[3] == 'linear' else i_
                                if not tol.close(i_, ph['I12'][b['id']], S_I[b['id']], tol.RTOL_REL * 10):
                                    r.fail('removal-route-current', f'part {g}: {b["id"]!r}: after passive_network {i_}, zeroed in place {ph["I12"][b["id"]]}')
        for n in acc['phi']:
            acc['phi'][n] += ph['phi'][n]
        for i in acc['V']:
            acc['V'][i] += ph['V'][i]
            acc['I12'][i] += ph['I12'][i]
    if ok and groups:
        m = len(groups)
        for n, v in base['phi'].items():
            if not tol.close(acc['phi'][n], v, S_phi * m, tol.RTOL_REL * 10):
                r.fail('superposition-potential', f'node {n!r}: sum {acc["phi"][n]} full {v}')
        for i in base['V']:
            if not tol.close(acc['V'][i], base['V'][i], S_phi * m, tol.RTOL_REL * 10):
                r.fail('superposition-voltage', f'{i!r}: sum {acc["V"][i]} full {base["V"][i]}')
            if not tol.close(acc['I12'][i], base['I12'][i], S_I[i] * m, tol.RTOL_REL * 10):
                r.fail('superposition-current', f'{i!r}: sum {acc["I12"][i]} full {base["I12"][i]}')


@st.composite
def linearity_case(draw):
    net = draw(gen.network(nmin=2, nmax=6, max_branches=10, min_sources=draw(st.sampled_from([1, 2, 2, 3]))))
    a = draw(st.one_of(gen.complex_val(-2, 2), st.tuples(gen.signed_real(-2, 2), st.just(0.0)).map(list),
                       st.sampled_from([[-1.0, 0.0], [0.0, 1.0], [2.0, 0.0], [0.5, -0.5]]),
                       st.sampled_from([[1e-9, 0.0], [0.0, -3e-12], [2e-15, 1e-15], [-4e-10, 0.0], [1e7, 0.0]])))
    parts = draw(st.lists(st.sampled_from([0, 1, 2, 3, 1, 0]), min_size=6, max_size=6))
    return {'net': net, 'a': a, 'parts': parts, 'order': draw(st.booleans()), 'removal_route': draw(st.sampled_from([False, True])),
            'keep_by_value': draw(st.sampled_from([False, False, True]))}


TESTS = [
    Test('linearity', check_linearity, strategy=linearity_case, quick=3000, thorough=50000),
]
