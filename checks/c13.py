"""C13 - schematic drawings are read as the netlist they depict."""
from __future__ import annotations
import math
from hypothesis import strategies as st
from vlib.core import Test, R
from vlib import gen, circuits as cc, refsolve as rs, tol, schem

PROPERTY = 'C13'
LEVEL = 'exploration'
RULE = ('drawing programs for random connected netlists over all supported two-terminal symbols (resistor, conductance, impedance, '
        'capacitor, inductance, lamp, open/closed switch, labelled wire, DC/AC/complex/rect/tri/saw voltage and current sources with '
        'either reversal flag and deg flag), plain wires (direct, two-segment chains, T-junctions at node home points), node labels '
        'and at most one ground; executed with plain += and (a share) inside a rendering with-block. Oracle: union-find model of '
        'the drawing (terminals coincide or are joined by wires), component kind/values/terminal order by a consistent node '
        'bijection, label and ground names, exact reference solution of the model netlist (DC and one AC frequency), and '
        'invariance of the translated circuit and its solution under rotation, translation, rescaling, wire subdivision and '
        'insertion-order permutation. Non-trivial = >= 1 wire chain or a junction of >= 3 terminals, and >= 1 source; '
        'distinct = case hash.')
ASSUMPTIONS = ['placement by .endpoints(p, q) (the only placement every symbol class honours)', 'sin-referenced sources are not generated',
               'electrical comparisons are skipped when the model netlist is ill-posed or ill-conditioned (e.g. closed switches of 1e-12 Ohm)']


def translate(program, r: R, render=False, sub='translate', translate_after=None):
    from CircuitCalculator.SimpleCircuit.DiagramTranslator import circuit_translator
    with r.lib(sub):
        sch = schem.build(program, render=render, translate_after=translate_after)
        circuit = circuit_translator(sch)
        if any(it['sym'] == 'ground' for it in program['items']):
            # the parser's own notion of the reference must be the node the ground symbol sits on
            from CircuitCalculator.SimpleCircuit.DiagramParser import SchematicDiagramParser
            gl = SchematicDiagramParser(sch).ground_label
            if gl != circuit.ground_node:
                r.fail('parser-ground-label', f'SchematicDiagramParser.ground_label {gl!r}, translated circuit is referenced to {circuit.ground_node!r}')
        return circuit
    return None


def structural(program, circuit, r: R, tag=''):
    """kind, values, terminal order of every symbol; consistent node bijection; labels; reference. Returns label->class map"""
    spec, labels, cls = schem.model(program)
    want = {c['id']: c for c in spec['components'] if c['kind'] != 'ground'}
    got = [c for c in circuit.components if c.type != 'ground']
    ids = [c.id for c in got]
    if sorted(ids) != sorted(want):
        r.fail(f'component-set{tag}', f'drawn {sorted(want)} translated {sorted(ids)}')
        return None, spec
    lab2cls, cls2lab = {}, {}
    for c in got:
        w = want[c.id]
        exp = cc.lib_component(w)
        if c.type != exp.type:
            r.fail(f'component-kind{tag}', f'{c.id!r}: drawn {exp.type} translated {c.type}')
            continue
        if set(c.value) != set(exp.value) or any(not same(c.value[k], exp.value[k]) for k in exp.value):
            r.fail(f'component-value{tag}[{w["kind"]}]', f'{c.id!r}: drawn {exp.value} translated {c.value}')
        for pos, (lab, k) in enumerate(zip(c.nodes, w['nodes'])):
            if lab2cls.setdefault(lab, k) != k:
                r.fail(f'nodes-merged{tag}', f'label {lab!r} stands for two different drawn nodes (at {c.id!r} terminal {pos})')
            if cls2lab.setdefault(k, lab) != lab:
                sym = next(it['sym'] for it in program['items'] if it.get('name') == c.id)
                r.fail(f'terminal-mapping{tag}[{sym}]', f'{c.id!r} terminal {pos}: drawn node already known as {cls2lab[k]!r}, translated as {lab!r}')
    for k, name in labels.items():
        if isinstance(name, tuple):
            r.cls('label-on-the-ground-net')
            if k in cls2lab and cls2lab[k] not in name:
                r.fail(f'node-label{tag}', f'node carries the names {name!r} but is translated as {cls2lab[k]!r}')
        elif name is not None and k in cls2lab and cls2lab[k] != name:
            r.fail(f'node-label{tag}', f'node carries the label {name!r} but is translated as {cls2lab[k]!r}')
    gcomp = [c for c in circuit.components if c.type == 'ground']
    has_ground = any(it['sym'] == 'ground' for it in program['items'])
    if has_ground != bool(gcomp):
        r.fail(f'ground-component{tag}', f'ground symbol drawn: {has_ground}, ground components translated: {len(gcomp)}')
    ref_cls = cc.ground_of(spec)
    if ref_cls in cls2lab and circuit.ground_node != cls2lab[ref_cls]:
        r.fail(f'reference-node{tag}', f'expected {cls2lab[ref_cls]!r}, circuit.ground_node is {circuit.ground_node!r}')
    return cls2lab, spec


def same(a, b):
    if isinstance(a, str) or isinstance(b, str):
        return a == b
    if a == b:
        return True
    try:
        return abs(a - b) <= 1e-12 * max(abs(a), abs(b))
    except TypeError:
        return False


def solve_lib(circuit, w, r: R, sub):
    from CircuitCalculator.Circuit.solution import ComplexSolution
    out = None
    with r.lib(sub):
        s = ComplexSolution(circuit, w=w, peak_values=True)
        out = {'V': {}, 'I': {}, 'phi': {}}
        for c in circuit.components:
            if c.type == 'ground':
                continue
            out['V'][c.id] = s.get_voltage(c.id)
            out['I'][c.id] = s.get_current(c.id)
            for n in c.nodes:
                out['phi'][n] = s.get_potential(n)
    return out


def check_drawing(case, r: R):
    prog = case['program']
    items = prog['items']
    nwire = sum(1 for it in items if it['sym'] == 'line')
    syms = [it for it in items if 'p' in it and it['sym'] != 'line']
    for it in syms:
        r.cls(it['sym'])
    if any(it.get('reverse') for it in syms):
        r.cls('reversed-source')
    if not any(it['sym'] == 'ground' for it in items):
        r.cls('no-ground')
    if any(it['sym'] == 'label' for it in items):
        r.cls('label-node')
    # junction degree
    deg = {}
    for it in items:
        for k in ('p', 'q'):
            if k in it:
                deg[schem.pt(it[k])] = deg.get(schem.pt(it[k]), 0) + 1
    junction = any(v >= 3 for v in deg.values())
    if junction:
        r.cls('junction>=3')
    has_src = any(it['sym'] in schem.SOURCES_V + schem.SOURCES_I for it in syms)
    r.nt((nwire >= 2 or junction) and has_src)
    circuit = translate(prog, r, render=case.get('render', False), translate_after=case.get('translate_after'))
    if case.get('render'):
        r.cls('rendered')
    if case.get('translate_after') is not None and not case.get('render'):
        r.cls('grown-after-a-first-translation')
    if circuit is None:
        return
    cls2lab, spec = structural(prog, circuit, r)
    if cls2lab is None or r.failures:
        return
    # (b) electrical identity with the intended netlist
    base = {}
    for w in case['ws']:
        try:
            net = cc.network_of(spec, w)
        except cc.Boundary:
            continue
        ref = rs.solve(net)
        if ref is None or not rs.well_conditioned(net, tol.KAPPA_MAX):
            r.cls('electrical-not-judged')
            continue
        S_phi, S_I = tol.scales(net, ref)
        exp = rs.reports(net, ref)
        got = solve_lib(circuit, w, r, 'solve-translated')
        if got is None:
            continue
        r.cls('electrical-judged')
        base[w] = (got, S_phi, S_I)
        for i, e in exp.items():
            if not tol.close(got['V'][i], e['V'], S_phi):
                r.fail('voltage-vs-intended-netlist', f'{i!r} at w={w}: translated circuit {got["V"][i]} intended {complex(e["V"])}')
            if not tol.close(got['I'][i], e['I'], S_I[i]):
                r.fail('current-vs-intended-netlist', f'{i!r} at w={w}: translated circuit {got["I"][i]} intended {complex(e["I"])}')
        for k, lab in cls2lab.items():
            if lab in got['phi'] and not tol.close(got['phi'][lab], ref['phi'][k], S_phi):
                r.fail('potential-vs-intended-netlist', f'node {lab!r} at w={w}: {got["phi"][lab]} intended {complex(ref["phi"][k])}')
    if r.failures:
        return
    # (c) the same drawing rotated / moved / rescaled / with split wires / in another insertion order
    for name, prog2 in variants(prog, case['tr']):
        r.cls(f'variant-{name}')
        c2 = translate(prog2, r, sub=f'translate[{name}]')
        if c2 is None:
            continue
        m2, _ = structural(prog2, c2, r, tag=f'[{name}]')
        if m2 is None:
            continue
        for w, (got, S_phi, S_I) in base.items():
            g2 = solve_lib(c2, w, r, f'solve[{name}]')
            if g2 is None:
                continue
            for i in got['V']:
                if not tol.close(g2['V'][i], got['V'][i], S_phi, tol.RTOL_REL):
                    r.fail(f'solution-changes-under-{name}', f'voltage of {i!r} at w={w}: {got["V"][i]} -> {g2["V"][i]}')
                if not tol.close(g2['I'][i], got['I'][i], S_I[i], tol.RTOL_REL):
                    r.fail(f'solution-changes-under-{name}', f'current of {i!r} at w={w}: {got["I"][i]} -> {g2["I"][i]}')


def variants(prog, tr):
    out = []
    kinds = tr['kinds']
    if 'rotate' in kinds:
        out.append(('rotation', schem.rotate(prog, tr['turns'])))
    if 'translate' in kinds:
        out.append(('translation', schem.translate(prog, tr['dx'], tr['dy'])))
    if 'rescale' in kinds:
        out.append(('rescaling', schem.rescale(prog, tr['factor'])))
    if 'subdivide' in kinds:
        out.append(('subdivision', schem.subdivide(prog, tr['fractions'])))
    if 'permute' in kinds:
        p2 = schem.permute(prog, tr['keys'])
        if not any(it['sym'] == 'ground' for it in prog['items']):
            # without a ground symbol the first listed symbol defines the reference: keep it first
            first = next(i for i, it in enumerate(prog['items']) if 'p' in it and it['sym'] != 'line')
            f_item = prog['items'][first]
            p2['items'] = [f_item] + [it for it in p2['items'] if it is not f_item]
        out.append(('permutation', p2))
    return out


@st.composite
def drawing_case(draw):
    prog = draw(schem.drawing())
    w0 = next((it['args']['w'] for it in prog['items'] if 'args' in it and 'w' in it['args']), 100.0)
    tr = {'kinds': draw(st.lists(st.sampled_from(['rotate', 'translate', 'rescale', 'subdivide', 'permute']), min_size=1, max_size=1, unique=True)),
          'turns': draw(st.sampled_from([1, 2, 3])), 'dx': draw(st.sampled_from([1.0, -2.5, 0.25, 7.0])), 'dy': draw(st.sampled_from([0.0, 3.0, -1.75])),
          'factor': draw(st.sampled_from([2.0, 2.5, 3.0, 1.5])), 'fractions': draw(st.lists(st.sampled_from([0.5, 0.25, 0.75]), min_size=1, max_size=4)),
          'keys': draw(st.lists(st.sampled_from(range(8)), min_size=4, max_size=12))}
    ta = draw(st.sampled_from([None, None, 'x']))
    if ta == 'x':
        ta = draw(st.integers(1, max(1, len(prog['items']) - 1)))
    return {'program': prog, 'ws': [0.0, w0], 'tr': tr, 'render': draw(st.sampled_from([False] * 7 + [True])), 'translate_after': ta}


TESTS = [
    Test('drawing', check_drawing, strategy=drawing_case, quick=600, thorough=8000),
]
