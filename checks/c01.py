"""C01 - steady-state solution obeys Kirchhoff's laws and every element law."""
from __future__ import annotations
import itertools
from hypothesis import strategies as st
from vlib.core import Test, R
from vlib import gen, refsolve as rs, tol
from vlib.exact import GQ

PROPERTY = 'C01'
LEVEL = 'exploration'
RULE = ('random connected multigraphs (2-8 nodes, <=14 branches, all 9 element kinds + opens/shorts, real/complex values, '
        'adversarial labels, any reference) plus complete enumeration of all oriented multigraphs with <=3 nodes / <=3 '
        'branches (thorough: <=4) over {R,V,I,linV,linI} x every reference; oracle = exact sparse-tableau solution over Q(i) '
        'and validity of the library\'s own numbers. Non-trivial = well-posed, >=1 non-zero source, >=3 branches, non-zero '
        'exact solution; distinct = distinct canonical case hash.')
ASSUMPTIONS = ['reference directions of DESIGN.md section 0.1', 'cases with equilibrated tableau condition > 1e8 are not judged',
               'self-loop branches are not generated']


def solver():
    from CircuitCalculator.Network.NodalAnalysis.bias_point_analysis import nodal_analysis_bias_point_solver
    return nodal_analysis_bias_point_solver


def classify(net, r: R):
    br = net['branches']
    pairs = [frozenset((b['n1'], b['n2'])) for b in br]
    if len(set(pairs)) < len(pairs):
        r.cls('parallel-branches')
    if any(b['kind'] in ('vsrc', 'isrc', 'linv', 'lini') and b['n2'] == net['ref'] for b in br):
        r.cls('source-n2-is-ref')
    at_ref = [b for b in br if net['ref'] in (b['n1'], b['n2'])]
    if at_ref and all(rs.law(b)[3] == 'idealV' for b in at_ref):
        r.cls('ref-touches-only-idealV')
    ids = [b['id'] for b in br]
    if ids != sorted(ids):
        r.cls('label-order-differs')
    if any(b['kind'] in ('linv', 'lini') for b in br):
        r.cls('linear-source')
    if any(isinstance(v, list) and v[1] != 0 for b in br for v in b['p'].values()):
        r.cls('complex-values')
    if any(b['kind'] in ('open', 'short') for b in br):
        r.cls('open-or-short')
    vs = sorted(b['id'] for b in br if rs.law(b)[3] == 'idealV')
    cs = sorted(b['id'] for b in br if b['kind'] in ('isrc', 'lini', 'linv'))
    if vs and cs and min(vs) < max(cs):
        r.cls('source-names-interleave')


def _check_solution_one(case, r: R):
    net = case['net']
    ref = rs.solve(net)
    if ref is None:
        return r.reject('ill-posed')
    if not rs.well_conditioned(net, tol.KAPPA_MAX):
        return r.reject('ill-conditioned')
    exp = rs.reports(net, ref)
    S_phi, S_I = tol.scales(net, ref)
    classify(net, r)
    nsrc = sum(1 for b in net['branches'] if rs.law(b)[2])
    r.nt(nsrc >= 1 and len(net['branches']) >= 3 and any(v for v in ref['phi'].values()))
    sol = None
    with r.lib('solve'):
        N = rs.lib_network(net)
        sol = solver()(N)
    if sol is None:
        return
    phi = {}
    for n in rs.nodes_of(net):
        with r.lib('get_potential'):
            phi[n] = sol.get_potential(n)
            if not tol.close(phi[n], ref['phi'][n], S_phi):
                r.fail('potential-vs-exact', f'node {n!r}: lib {phi[n]} exact {complex(ref["phi"][n])} scale {S_phi:g}')
    if phi.get(net['ref'], 0) != 0:
        r.fail('reference-not-zero', f'{phi.get(net["ref"])}')
    I12 = {}
    for b in net['branches']:
        i, e = b['id'], exp[b['id']]
        with r.lib('get_voltage'):
            V = sol.get_voltage(i)
            if not tol.close(V, e['V'], S_phi):
                r.fail('voltage-vs-exact', f'{i!r}: lib {V} exact {complex(e["V"])}')
            if b['n1'] in phi and b['n2'] in phi and not tol.close(V, phi[b['n1']] - phi[b['n2']], S_phi, 1e-12):
                r.fail('voltage-not-potential-difference', f'{i!r}')
        with r.lib('get_current'):
            I = sol.get_current(i)
            if not tol.close(I, e['I'], S_I[i]):
                r.fail('current-vs-exact', f'{i!r} ({b["kind"]}): lib {I} exact {complex(e["I"])} scale {S_I[i]:g}')
            I12[i] = -I if e['cls'] == 'linear' else I
        with r.lib('get_power'):
            P = sol.get_power(i)
            if not tol.close(P, e['P'], S_phi * S_I[i]):
                r.fail('power-vs-exact', f'{i!r}: lib {P} exact {complex(e["P"])}')
    # validity of the library's own numbers: KCL at every node (reference included), element laws
    if len(I12) == len(net['branches']) and len(phi) == len(rs.nodes_of(net)):
        for n in rs.nodes_of(net):
            s, sc = 0, 0.0
            for b in net['branches']:
                if b['n1'] == n:
                    s += I12[b['id']]; sc += S_I[b['id']]
                if b['n2'] == n:
                    s -= I12[b['id']]; sc += S_I[b['id']]
            if not tol.close(s, 0, sc):
                r.fail('kcl', f'node {n!r}: sum {s}')
        for b in net['branches']:
            a, bb, c, _ = rs.law(b)
            V = phi[b['n1']] - phi[b['n2']]
            res = complex(a) * V + complex(bb) * I12[b['id']] - complex(c)
            sc = abs(complex(a)) * S_phi + abs(complex(bb)) * S_I[b['id']]
            if not tol.close(res, 0, sc):
                r.fail('element-law', f'{b["id"]!r} ({b["kind"]}): residual {res}')
    # the same branches solved again, in this process, with every other node as reference: potentials shift by one constant
    from CircuitCalculator.Network.transformers import switch_ground_node
    for r2 in rs.nodes_of(net):
        if r2 == net['ref']:
            continue
        with r.lib('solve[other reference]'):
            sol2 = solver()(switch_ground_node(N, r2))
            for n in rs.nodes_of(net):
                want = complex(ref['phi'][n]) - complex(ref['phi'][r2])
                if not tol.close(sol2.get_potential(n), want, 2 * S_phi):
                    r.fail('potential-after-re-referencing', f'reference {r2!r}, node {n!r}: lib {sol2.get_potential(n)} exact {want}')
            for b in net['branches']:
                if not tol.close(sol2.get_current(b['id']), exp[b['id']]['I'], S_I[b['id']]):
                    r.fail('current-after-re-referencing', f'reference {r2!r}, {b["id"]!r}: lib {sol2.get_current(b["id"])} exact {complex(exp[b["id"]]["I"])}')
        if len(rs.nodes_of(net)) > 4:
            break        # one alternative reference is enough for the large random networks
    # open-circuit voltage between node pairs
    from CircuitCalculator.Network.NodalAnalysis.bias_point_analysis import open_circuit_voltage
    nodes = rs.nodes_of(net)
    for (i, j) in case.get('pairs', []):
        n1, n2 = nodes[i % len(nodes)], nodes[j % len(nodes)]
        with r.lib('open_circuit_voltage'):
            v = open_circuit_voltage(N, n1, n2)
            if not tol.close(v, ref['phi'][n1] - ref['phi'][n2], S_phi):
                r.fail('open-circuit-voltage', f'{n1!r},{n2!r}: lib {v} exact {complex(ref["phi"][n1] - ref["phi"][n2])}')


@st.composite
def random_case(draw):
    net = draw(gen.network(opens_shorts=draw(st.integers(0, 3)) == 0))
    pairs = draw(st.lists(st.tuples(st.integers(0, 7), st.integers(0, 7)), min_size=1, max_size=3))
    return {'net': net, 'pairs': [list(p) for p in pairs]}


# ---- bounded-exhaustive small topologies ----------------------------------------------------------------------
NODES = ['b', 'a', '10']                      # creation order != sort order
IDS = ['Z', 'M', 'A', 'z']                    # so that sources, linear sources and passives interleave by name
VALS = {
    'resistor': [{'R': 47.0}, {'R': 330.0}, {'R': 6.8}, {'R': 1500.0}],
    'vsrc': [{'V': 5.0}, {'V': -12.0}, {'V': 3.3}, {'V': 9.0}],
    'isrc': [{'I': 0.2}, {'I': -1.5}, {'I': 0.03}, {'I': 2.0}],
    'linv': [{'V': 7.0, 'Z': 22.0}, {'V': -2.5, 'Z': 100.0}, {'V': 11.0, 'Z': 4.7}, {'V': 1.5, 'Z': 680.0}],
    'lini': [{'I': 0.7, 'Y': 0.01}, {'I': -0.11, 'Y': 0.2}, {'I': 1.3, 'Y': 0.0047}, {'I': 0.05, 'Y': 1.5}],
}


def small_cases(tier):
    kinds = list(VALS)
    for n in (2, 3):
        oriented = [(a, b) for a in range(n) for b in range(n) if a != b]
        items = [(o, k) for o in oriented for k in kinds]
        bmax = (3 if tier == 'quick' else 4)
        for nb in range(1, bmax + 1):
            for combo in itertools.combinations_with_replacement(range(len(items)), nb):
                used = set()
                for c in combo:
                    used.update(items[c][0])
                if len(used) < n:
                    continue
                if n == 3:
                    # connected?
                    adj = {frozenset(items[c][0]) for c in combo}
                    if len(adj) < 2:
                        continue
                branches = []
                for pos, c in enumerate(combo):
                    (a, b), k = items[c]
                    branches.append({'id': IDS[pos], 'n1': NODES[a], 'n2': NODES[b], 'kind': k, 'p': VALS[k][pos]})
                for ref in range(n):
                    yield {'net': {'ref': NODES[ref], 'branches': branches}, 'pairs': [[0, 1], [1, 0]]}


def check_solution(case, r: R):
    """the case itself, then - in the same process - its value-perturbed twin (same names, topology, listing order):
    a result that is cached or keyed by structure instead of by value shows up on the second evaluation"""
    _check_solution_one(case, r)
    if r.failures:
        return
    first_rejected, r.rejected = r.rejected, None
    twin = dict(case)
    twin['net'] = gen.twin_network(case['net'])
    sub = R()
    _check_solution_one(twin, sub)
    for s_, d_ in sub.failures:
        r.fail('twin:' + s_, d_)
    r.rejected = first_rejected


TESTS = [
    Test('random', check_solution, strategy=random_case, quick=6000, thorough=150000),
    Test('small-exhaustive', check_solution, enumerate=small_cases, exhaustive=True),
]
