"""C14 - numbers written on a schematic are the true circuit quantities."""
from __future__ import annotations
import cmath, math, re
from hypothesis import strategies as st
from vlib.core import Test, R
from vlib import gen, circuits as cc, refsolve as rs, tol, schem
from vlib.parse_display import parse_real, accuracy_ok, ParseError
import checks.c18 as c18
import checks.c15 as c15

PROPERTY = 'C14'
LEVEL = 'exploration'
RULE = ('drawings of C13 with a well-posed circuit x every annotatable element and labelled node x both annotation directions x '
        'solution kind (real/DC, complex, single-frequency complex, time-domain steady state) x display options (precision 1-6, '
        'polar, degrees, hertz, sine reference), through the programmatic path (real_solution / complex_solution / '
        'single_frequency_* -> draw_*) and the declarative path (create_schematic with a solution section). Oracle: the label '
        'text is parsed by the strict parser of C18 and must denote, to the displayed precision, +-get_*(id) of a solution object '
        'the check builds itself for circuit_translator(drawing) from the documented meaning of the kind (DC; RMS phasor at w=0; '
        'RMS phasor at w; Re{X_peak e^{jwt}}), negated exactly when reverse is requested; declarative and programmatic labels '
        'must coincide. Non-trivial = annotated quantity non-zero; distinct = case hash.')
ASSUMPTIONS = ['the translated circuit and the library\'s own single-frequency solver are the reference (validated by C13, C01, C02)',
               'the power annotation of the time-function kind is not judged (a complex power written as a sinusoid at w denotes no circuit quantity)']

SMALL = c18.SMALL


def label_text(el):
    try:
        return el._userlabels[0].label
    except (AttributeError, IndexError):
        return None


def judge(r: R, sub, text, value, kind, opts, unit):
    """one annotation against the quantity it must denote"""
    p = opts.get('precision', 3)
    if kind == 'real':
        if unit == 'W':
            if not text or text[-1] not in '↓↑':
                return r.fail(f'{sub}:unparseable', text)
            if (text[-1] == '↓') != (value > 0) and value != 0:
                r.fail(f'{sub}:direction', f'power {value!r} rendered {text!r}')
            c18.judge_real(r, sub, text[:-1], abs(value), p, 'W', c18.DEF, allow_sign=False)
        else:
            c18.judge_real(r, sub, text, value, p, unit, SMALL)
    elif kind == 'complex':
        c18.judge_complex(r, sub, text, complex(value), p, unit, SMALL, opts.get('polar', False), opts.get('deg', False))
    elif kind == 'time':
        judge_sinusoid(r, sub, text, complex(value), opts, unit)


def judge_sinusoid(r: R, sub, text, X_peak: complex, opts, unit):
    """A·cos(ω·t±φ) / A·sin(...) must denote Re{X_peak e^{jwt}}"""
    p, w = 3, opts['w']
    sin, deg, hertz = opts.get('sin', False), opts.get('deg', False), opts.get('hertz', False)
    if w == 0:
        return c18.judge_real(r, f'{sub}:amplitude', text, abs(X_peak), p, unit, SMALL, allow_sign=False)
    m = re.fullmatch(r'(?P<amp>[^·]+)·(?P<fn>cos|sin)\((?P<twopi>2π·)?(?P<freq>[^·]+)·t(?:(?P<sg>[+-])(?P<ph>[^)]+))?\)', text)
    if not m:
        return r.fail(f'{sub}:unparseable', text)
    if (m.group('fn') == 'sin') != sin or bool(m.group('twopi')) != hertz:
        r.fail(f'{sub}:form', text)
    c18.judge_real(r, f'{sub}:amplitude', m.group('amp'), abs(X_peak), p, unit, SMALL, allow_sign=False)
    if hertz:
        c18.judge_real(r, f'{sub}:frequency', m.group('freq'), w / 2 / math.pi, p, 'Hz', c18.HZ, allow_sign=False)
    else:
        c18.judge_real(r, f'{sub}:frequency', m.group('freq'), w, p, '/s', None, allow_sign=False)
    if abs(X_peak) == 0:
        return
    true_phi = cmath.phase(X_peak) + (math.pi / 2 if sin else 0.0)
    full = 360.0 if deg else 2 * math.pi
    true_disp = math.degrees(true_phi) if deg else true_phi
    if m.group('ph') is None:
        d = abs((true_phi + math.pi) % (2 * math.pi) - math.pi)
        if d > 1.0000001e-4:
            r.fail(f'{sub}:phase-omitted', f'rendered {text!r}: signal has phase {true_phi}')
        return
    try:
        qp = parse_real(m.group('ph'), '°' if deg else '', None, allow_sign=False)
    except ParseError as e:
        return r.fail(f'{sub}:unparseable', f'phase in {text!r}: {e}')
    shown = qp.value * (-1 if m.group('sg') == '-' else 1)
    k = round((float(shown) - true_disp) / full)
    target = true_disp + k * full
    if not accuracy_ok(shown, target, p) and abs(float(shown) - target) > 1e-9:
        r.fail(f'{sub}:phase', f'rendered {text!r}: denotes phase {shown}, signal has {target}')


def reference_solution(circuit, kind, opts):
    from CircuitCalculator.Circuit.solution import DCSolution, ComplexSolution
    if kind == 'real':
        return DCSolution(circuit)
    if kind == 'complex':
        return ComplexSolution(circuit, w=opts.get('w', 0), peak_values=False)
    return ComplexSolution(circuit, w=opts['w'], peak_values=True)


def diagram_solution(sch, kind, opts):
    from CircuitCalculator.SimpleCircuit import DiagramSolution as ds
    if kind == 'real':
        return ds.real_solution(sch, precision=opts['precision'])
    if kind == 'complex' and 'w' not in opts:
        return ds.complex_solution(sch, precision=opts['precision'], polar=opts['polar'], deg=opts['deg'])
    if kind == 'complex':
        return ds.single_frequency_complex_solution(sch, w=opts['w'], precision=opts['precision'], polar=opts['polar'], deg=opts['deg'])
    return ds.single_frequency_time_domain_steady_state_solution(sch, w=opts['w'], sin=opts['sin'], deg=opts['deg'], hertz=opts['hertz'])


def well_posed(prog, ws, r: R):
    spec, labels, cls = schem.model(prog)
    for w in ws:
        try:
            net = cc.network_of(spec, w)
        except cc.Boundary:
            r.reject('activation boundary')
            return False
        if rs.solve(net) is None or not rs.well_conditioned(net, tol.KAPPA_MAX):
            r.reject('ill-posed or ill-conditioned drawing')
            return False
    return True


def check_annotations(case, r: R):
    from CircuitCalculator.SimpleCircuit.DiagramTranslator import circuit_translator
    prog, kind, opts = case['program'], case['kind'], case['opts']
    if not well_posed(prog, [opts.get('w', 0.0)], r):
        return
    r.cls(f'kind={kind}' + ('@w' if 'w' in opts and kind == 'complex' else ''), f'precision={opts.get("precision", 3)}')
    for k in ('polar', 'deg', 'hertz', 'sin'):
        if opts.get(k):
            r.cls(k)
    sch = dsol = ref = None
    with r.lib('build'):
        sch = schem.build(prog)
        ref = reference_solution(circuit_translator(sch), kind, opts)
    if sch is None or ref is None:
        return
    with r.lib(f'solution[{kind}]'):
        dsol = diagram_solution(sch, kind, opts)
    if dsol is None:
        return
    names = [it['name'] for it in prog['items'] if 'p' in it and it['sym'] != 'line']
    node_names = [it['name'] for it in prog['items'] if it['sym'] == 'label'] + (['0'] if any(it['sym'] == 'ground' for it in prog['items']) else [])
    nt = False
    for name in names:
        for reverse in (False, True):
            sg = -1 if reverse else 1
            for q, unit, getter, drawer in (('voltage', 'V', ref.get_voltage, dsol.draw_voltage), ('current', 'A', ref.get_current, dsol.draw_current),
                                            ('power', 'W', ref.get_power, dsol.draw_power)):
                # the time-function kind writes the power as |S| cos(wt + arg S) with S = V conj(I) / 2 of the amplitude
                # phasors: whatever one thinks of that notation, it has to agree with the complex annotation (same S)
                with r.lib(f'draw_{q}'):
                    el = drawer(name, reverse=reverse)
                    text = label_text(el)
                    value = sg * getter(name)
                    if text is None:
                        r.fail(f'{q}:no-label-text', name)
                        continue
                    nt = nt or abs(complex(value)) > 0
                    judge(r, f'{q}[{kind}]', text, value, kind, opts, unit)
                    r.cls(f'{q}-{"reverse" if reverse else "forward"}')
    for nn in node_names:
        with r.lib('draw_potential'):
            el = dsol.draw_potential(nn)
            text = el.name
            value = ref.get_potential(nn)
            nt = nt or abs(complex(value)) > 0
            judge(r, f'potential[{kind}]', text, value, kind, opts, 'V')
            r.cls('potential')
    r.nt(nt)


def known_part_omitted(case, sub, detail):
    return c18.known_part_omitted(case, sub, detail)


KNOWN = {'F20-C14': known_part_omitted}


@st.composite
def options(draw, kind, w0):
    if kind == 'real':
        return {'precision': draw(st.sampled_from([3, 1, 2, 4, 5, 6]))}
    if kind == 'complex':
        o = {'precision': draw(st.sampled_from([3, 1, 2, 4, 5, 6])), 'polar': draw(st.booleans()), 'deg': draw(st.booleans())}
        if draw(st.booleans()):
            o['w'] = draw(st.sampled_from([w0, w0, 0.0, 2 * w0]))
        return o
    return {'w': draw(st.sampled_from([w0, w0, 0.0])), 'sin': draw(st.booleans()), 'deg': draw(st.booleans()), 'hertz': draw(st.booleans())}


ANN_PASSIVE = ['resistor', 'resistor', 'conductance', 'impedance', 'capacitor', 'inductance', 'lamp', 'labeled_line']


@st.composite
def annotation_case(draw):
    prog = draw(schem.drawing(min_symbols=3, max_symbols=5, symbol_pool=ANN_PASSIVE, label_on_ground=False,
                              sources_v=['voltage_source', 'ac_voltage_source', 'complex_voltage_source'],
                              sources_i=['current_source', 'ac_current_source']))
    w0 = next((it['args']['w'] for it in prog['items'] if 'args' in it and 'w' in it['args']), 100.0)
    kind = draw(st.sampled_from(['real', 'complex', 'complex', 'time']))
    return {'program': prog, 'kind': kind, 'opts': draw(options(kind, w0))}


# ---- declarative path --------------------------------------------------------------------------------------------------

def check_declarative(case, r: R):
    """create_schematic with a solution section writes the same labels as the programmatic calls on the same drawing"""
    from CircuitCalculator.SimpleSimulation.schematic import create_schematic
    from CircuitCalculator.SimpleCircuit.DiagramTranslator import circuit_translator
    from CircuitCalculator.SimpleCircuit import Elements as elm
    desc, kind, opts = c15.to_lib_desc(case['desc']), case['kind'], case['opts']
    prog = c15.turtle(desc)
    w = opts.get('w', 0.0)
    if not well_posed(prog, [w], r):
        return
    names = [e['name'] for e in desc['elements'] if e['type'] not in ('node', 'ground', 'line') and 'name' in e]
    nodes = [e['name'] for e in desc['elements'] if e['type'] in ('node', 'ground') and e.get('name')]
    if not names:
        return r.reject('nothing to annotate')
    _, _, cls = schem.model(prog)
    seen = {}
    for it in prog['items']:
        if it['sym'] in ('label', 'ground'):
            k = cls[schem.pt(it['at'])]
            if k in seen:
                return r.reject('two names on one node')
            seen[k] = it.get('name')
    rev = case['reverse']
    sec = {'type': {'real': case['real_name'], 'complex': 'complex', 'complex@w': 'single_frequency_time_domain'}[kind]}
    sec.update({k: v for k, v in opts.items()})
    sec['voltages'] = [{'name': n, 'reverse': rev[i % len(rev)]} for i, n in enumerate(names)]
    sec['currents'] = [{'name': n, 'reverse': rev[(i + 1) % len(rev)]} for i, n in enumerate(names)]
    sec['powers'] = [{'name': n, 'reverse': rev[(i + 2) % len(rev)]} for i, n in enumerate(names)]
    sec['potentials'] = [{'name': n} for n in nodes]
    r.cls(f'declarative-{kind}')
    r.nt(True)
    full = dict(desc, solution=sec)
    sch = None
    with r.lib('create_schematic[solution]'):
        sch = create_schematic(full)
    if sch is None:
        return
    got = {'V': [], 'I': [], 'P': [], 'phi': []}
    n_plain = len(desc['elements'])
    for el in sch.elements:
        if isinstance(el, elm.VoltageLabel):
            got['V'].append(label_text(el))
        elif isinstance(el, elm.CurrentLabel):
            got['I'].append(label_text(el))
        elif isinstance(el, elm.PowerLabel):
            got['P'].append(label_text(el))
    got['phi'] = [el.name for el in sch.elements[n_plain:] if isinstance(el, elm.LabelNode)]
    # the same annotations requested programmatically on the same drawing, and the quantities they must denote
    ref = dsol = None
    with r.lib('programmatic'):
        base = create_schematic(desc)
        k2 = 'complex' if kind.startswith('complex') else 'real'
        o2 = dict(opts)
        o2.setdefault('precision', 3)
        o2.setdefault('polar', False)
        o2.setdefault('deg', False)
        if kind == 'complex':
            o2.pop('w', None)
        dsol = diagram_solution(base, k2, o2)
        ref = reference_solution(circuit_translator(base), k2, o2)
    if dsol is None or ref is None:
        return
    want = {'V': [], 'I': [], 'P': [], 'phi': []}
    with r.lib('programmatic-labels'):
        for i, n in enumerate(names):
            want['V'].append(label_text(dsol.draw_voltage(n, reverse=rev[i % len(rev)])))
            want['I'].append(label_text(dsol.draw_current(n, reverse=rev[(i + 1) % len(rev)])))
            want['P'].append(label_text(dsol.draw_power(n, reverse=rev[(i + 2) % len(rev)])))
        for n in nodes:
            want['phi'].append(dsol.draw_potential(n).name)
    for q in want:
        if sorted(map(str, got[q])) != sorted(map(str, want[q])):
            r.fail(f'declarative-labels-differ[{q}]', f'declarative {got[q]} programmatic {want[q]}')
    # and the declarative labels denote the right quantities
    with r.lib('declarative-values'):
        for i, n in enumerate(names):
            if i < len(got['V']) and got['V'][i] is not None:
                sg = -1 if rev[i % len(rev)] else 1
                judge(r, f'declarative-voltage[{k2}]', got['V'][i], sg * ref.get_voltage(n), k2, o2, 'V')


@st.composite
def declarative_case(draw):
    base = draw(c15.declarative_case())
    kind = draw(st.sampled_from(['real', 'complex', 'complex@w']))
    opts = {}
    if draw(st.booleans()):
        opts['precision'] = draw(st.sampled_from([1, 2, 4, 5]))
    if kind != 'real':
        if draw(st.booleans()):
            opts['polar'] = draw(st.booleans())
        if draw(st.booleans()):
            opts['deg'] = draw(st.booleans())
    if kind == 'complex@w':
        # the analysed frequency is mostly that of a source of the description (else every label is 0)
        ws = sorted({e['w'] for e in base['desc']['elements'] if isinstance(e.get('w'), (int, float))})
        opts['w'] = draw(st.sampled_from((ws or [50.0]) * 3 + [1.0, 0.0, 2.5]))
    return {'desc': base['desc'], 'kind': kind, 'opts': opts, 'real_name': draw(st.sampled_from(['dc', 'real'])),
            'reverse': draw(st.lists(st.booleans(), min_size=1, max_size=4))}


TESTS = [
    Test('annotations', check_annotations, strategy=annotation_case, quick=400, thorough=6000),
    Test('declarative', check_declarative, strategy=declarative_case, quick=400, thorough=5000),
]
