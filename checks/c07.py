"""C07 - every component becomes exactly one faithful network branch."""
from __future__ import annotations
import math, itertools
from hypothesis import strategies as st
from vlib.core import Test, R
from vlib import gen, circuits as cc
from vlib.refsolve import law, gq

PROPERTY = 'C07'
LEVEL = 'exploration'
RULE = ('component lists over all 18 constructors of the component module (each kind at every list position; values incl. R=0/inf, '
        'P=0, C=L=0), analysis frequency from {0, source frequencies, harmonics n*w0, just inside/outside the resolution, random}, '
        'several resolutions; oracle = independent translation table written from the statement (true Fourier coefficients for '
        'periodic sources); plus exhaustive kind x position table for lists of length <= 3. Non-trivial = list with >= 2 distinct '
        'kinds; distinct = case hash.')
ASSUMPTIONS = ['frequencies within 1e-6 relative of an activation boundary are not judged', 'V_ref = 0 (rejected by the element) is not generated']

ALL_KINDS = ['resistor', 'conductance', 'impedance', 'admittance', 'capacitor', 'inductance', 'lamp', 'resistive_load', 'short_circuit',
             'dc_voltage_source', 'ac_voltage_source', 'complex_voltage_source', 'periodic_voltage_source',
             'dc_current_source', 'ac_current_source', 'complex_current_source', 'periodic_current_source']


def expected_form(b):
    """('Z', Z, V) series form or ('Y', Y, I) parallel form, as complex numbers"""
    k, p = b['kind'], b['p']
    c = lambda v: complex(*v) if isinstance(v, list) else complex(v)
    if k == 'resistor':
        return 'Z', c(p['R']), 0j
    if k == 'impedance':
        return 'Z', c(p['Z']), 0j
    if k == 'conductor':
        return 'Y', c(p['G']), 0j
    if k == 'admittance':
        return 'Y', c(p['Y']), 0j
    if k == 'load':
        return 'Y', complex(p['P'], p.get('Q', 0)) / p['V_ref'] ** 2, 0j
    if k == 'short':
        return 'Z', 0j, 0j
    if k == 'open':
        return 'Y', 0j, 0j
    if k == 'vsrc':
        return 'Z', 0j, c(p['V'])
    if k == 'linv':
        return 'Z', c(p['Z']), c(p['V'])
    if k == 'isrc':
        return 'Y', 0j, c(p['I'])
    if k == 'lini':
        return 'Y', c(p['Y']), c(p['I'])
    raise ValueError(k)


def near(a, b, scale=None):
    a, b = complex(a), complex(b)
    if a == b:
        return True
    s = max(abs(a), abs(b)) if scale is None else scale
    return abs(a - b) <= 1e-11 * s


def compare_branch(r: R, comp, exp, br):
    kind = comp['kind']
    if br.node1 != exp['n1'] or br.node2 != exp['n2']:
        r.fail('terminal-order', f'{kind} {comp["id"]!r}: component {exp["n1"]!r}->{exp["n2"]!r}, branch {br.node1!r}->{br.node2!r}')
    form, imm, src = expected_form(exp)
    el = br.element
    with r.lib('element-access'):
        got_imm = el.Z if form == 'Z' else el.Y
        got_src = el.V if form == 'Z' else el.I
        if not near(got_imm, imm):
            r.fail(f'immittance[{kind}]', f'{comp["id"]!r}: expected {form}={imm!r}, branch has {form}={got_imm!r} (args {comp.get("args")})')
        if not near(got_src, src, max(abs(src), 1e-300)):
            r.fail(f'source-value[{kind}]', f'{comp["id"]!r}: expected {"V" if form == "Z" else "I"}={src!r}, branch has {got_src!r} (args {comp.get("args")})')


def check_translation(case, r: R):
    from CircuitCalculator.Circuit.circuit import transform_circuit, transform
    spec, w, w_res = case['circuit'], case['w'], case['w_res']
    kinds = [c['kind'] for c in spec['components']]
    r.nt(len(spec['components']) >= 2 and len(set(kinds)) >= 2)
    for i, k in enumerate(kinds):
        pos = 'first' if i == 0 else ('last' if i == len(kinds) - 1 else 'middle')
        r.cls(f'{k}@{pos}')
    r.cls('w=0' if w == 0 else 'w>0', 'implicit-ground' if 'ground' not in kinds else 'ground-component')
    if any(c['kind'] != 'ground' and c['nodes'][0] == c['nodes'][1] for c in spec['components']):
        r.cls('component-bridged-by-its-own-node')
    try:
        exp = cc.network_of(spec, w, w_res)
    except cc.Boundary:
        return r.reject('frequency at an activation boundary')
    for c in spec['components']:
        if c['kind'].startswith('periodic'):
            n = int(round(w / c['args']['w']))
            act = abs(w - n * c['args']['w']) <= w_res
            r.cls('harmonic-hit' if act else 'harmonic-miss')
    circuit = net = None
    with r.lib('construct'):
        circuit = cc.lib_circuit(spec)
    if circuit is None:
        return
    if circuit.ground_node != cc.ground_of(spec):
        r.fail('ground-node', f'Circuit.ground_node {circuit.ground_node!r}, expected {cc.ground_of(spec)!r}')
    with r.lib('transform_circuit'):
        net = transform_circuit(circuit, w, w_res) if not case.get('default_res') else transform_circuit(circuit, w)
    if net is None:
        return
    if net.node_zero_label != cc.ground_of(spec):
        r.fail('reference-node', f'{net.node_zero_label!r}, expected {cc.ground_of(spec)!r}')
    want_ids = [c['id'] for c in spec['components'] if c['kind'] != 'ground']
    got_ids = [b.id for b in net.branches]
    if sorted(got_ids) != sorted(want_ids):
        missing = [i for i in want_ids if i not in got_ids]
        kinds_missing = sorted({c['kind'] for c in spec['components'] if c['id'] in missing})
        r.fail('branch-set:' + (','.join(kinds_missing) if missing else 'extra'), f'components {want_ids} branches {got_ids}')
    by_id = {b.id: b for b in net.branches}
    comps = {c['id']: c for c in spec['components']}
    for e in exp['branches']:
        if e['id'] in by_id:
            compare_branch(r, comps[e['id']], e, by_id[e['id']])
    # the same Circuit object transformed again at the same w with another resolution (a result remembered per object
    # or per frequency would be stale now)
    for res2 in (w_res * 1e3, w_res * 1e-3):
        try:
            exp2 = cc.network_of(spec, w, res2)
        except cc.Boundary:
            continue
        with r.lib('transform_circuit[second resolution]'):
            net2 = transform_circuit(circuit, w, res2)
            by2 = {b.id: b for b in net2.branches}
            for e in exp2['branches']:
                if e['id'] in by2:
                    sub = R()
                    compare_branch(sub, comps[e['id']], e, by2[e['id']])
                    for s_, d_ in sub.failures:
                        r.fail('second-resolution:' + s_, d_)
    # transform(circuit, [w...])[k] is transform_circuit(circuit, w_k)
    ws = case.get('w_list') or [w]
    with r.lib('transform'):
        nets = transform(circuit, ws, w_res)
        if len(nets) != len(ws):
            r.fail('transform-length', f'{len(nets)} networks for {len(ws)} frequencies')
        for wk, nk in zip(ws, nets):
            if nk != transform_circuit(circuit, wk, w_res):
                r.fail('transform-vs-transform_circuit', f'w={wk}')


@st.composite
def special_values(draw, spec):
    """inject physically meaningful edge values: open switch R=inf, R=0, P=0, C=0, L=0, G=0"""
    for c in spec['components']:
        if draw(st.integers(0, 11)) != 0:
            continue
        k, a = c['kind'], c['args']
        if k == 'resistor':
            a['R'] = draw(st.sampled_from([0.0, math.inf, 1e-12]))
        elif k == 'conductance':
            a['G'] = draw(st.sampled_from([0.0, math.inf]))
        elif k in ('lamp', 'resistive_load'):
            a['P'] = 0.0
        elif k == 'capacitor':
            a['C'] = 0.0
        elif k == 'inductance':
            a['L'] = 0.0
    return spec


@st.composite
def translation_case(draw):
    w_pool = draw(st.lists(cc.freq, min_size=1, max_size=2))
    spec = draw(cc.circuit(2, 5, 8, source_kinds_v=cc.SOURCE_KINDS_V, source_kinds_i=cc.SOURCE_KINDS_I, w_pool=w_pool,
                           passive=cc.PASSIVE + ['short_circuit'], min_sources=0))
    spec = draw(special_values(spec))
    # occasionally a component bridged by its own node (both terminals on one node): still exactly one branch
    if draw(st.sampled_from([False, False, False, True])):
        two = [c for c in spec['components'] if c['kind'] != 'ground']
        c = two[draw(st.integers(0, len(two) - 1))]
        keep_first = draw(st.booleans())
        dropped = c['nodes'][1] if keep_first else c['nodes'][0]
        # the abandoned node must stay in the circuit (otherwise a ground placed on it would rightly be rejected)
        if any(dropped in o['nodes'] for o in two if o is not c):
            c['nodes'] = [c['nodes'][0], c['nodes'][0]] if keep_first else [c['nodes'][1], c['nodes'][1]]
    w_res = draw(st.sampled_from([1e-3, 1e-3, 1e-2, 1.0, 1e-5, 0.0]))     # 0.0: exact matching
    mode = draw(st.integers(0, 6)) if w_res > 0 else draw(st.sampled_from([0, 0, 1, 1, 5]))
    ws = draw(st.sampled_from(w_pool))
    if mode == 0:
        w = 0.0
    elif mode == 1:
        w = ws
    elif mode == 2:
        w = ws * draw(st.integers(1, 9))
    elif mode == 3:
        w = max(0.0, ws * draw(st.integers(1, 5)) + draw(st.sampled_from([0.5, 0.999, 1.001, 2.0, -0.5, -0.999, -1.001, -2.0])) * w_res)
    elif mode == 4:
        w = draw(st.sampled_from([0.5, 0.999, 1.001, 2.0])) * w_res          # around the DC boundary
    else:
        w = draw(cc.freq)
    case = {'circuit': spec, 'w': w, 'w_res': w_res, 'default_res': w_res == 1e-3 and draw(st.booleans())}
    if draw(st.integers(0, 3)) == 0:
        case['w_list'] = [0.0, w, ws]
    return case


# ---- exhaustive kind x position table ------------------------------------------------------------------------------------
FIXED = {
    'resistor': {'R': 47.0}, 'conductance': {'G': 0.02}, 'impedance': {'Z': [3.0, 4.0]}, 'admittance': {'Y': [0.1, -0.2]},
    'capacitor': {'C': 1e-4}, 'inductance': {'L': 0.05}, 'lamp': {'P': 40.0, 'V_ref': 12.0}, 'resistive_load': {'P': 100.0, 'V_ref': 230.0},
    'short_circuit': {},
    'dc_voltage_source': {'V': 9.0, 'R': 2.0}, 'ac_voltage_source': {'V': 5.0, 'R': 1.5, 'w': 100.0, 'phi': 0.7},
    'complex_voltage_source': {'V': [1.0, -2.0], 'Z': [0.5, 0.25]},
    'periodic_voltage_source': {'wavetype': 'rect', 'V': 3.0, 'w': 100.0, 'phi': 0.3, 'R': 4.0},
    'dc_current_source': {'I': 0.5, 'G': 0.01}, 'ac_current_source': {'I': 0.25, 'G': 0.02, 'w': 100.0, 'phi': -1.1},
    'complex_current_source': {'I': [0.1, 0.3], 'Y': [0.01, 0.02]},
    'periodic_current_source': {'wavetype': 'saw', 'I': 0.2, 'w': 100.0, 'phi': 1.2, 'G': 0.05},
    'ground': {},
}


def table_cases(tier):
    kinds = ALL_KINDS + ['ground']
    nodes = ['b', 'a', '0']
    for L in (1, 2, 3):
        for combo in itertools.product(kinds, repeat=L):
            if combo.count('ground') > 1 or (L == 3 and tier == 'quick' and len(set(combo)) < 3 and 'ground' not in combo):
                continue
            if all(k == 'ground' for k in combo):
                continue
            comps = []
            for i, k in enumerate(combo):
                nn = [nodes[i % 3], nodes[(i + 1) % 3]] if k != 'ground' else [nodes[(i + 2) % 3]]
                comps.append({'kind': k, 'id': f'{"ZMA"[i]}{i}', 'nodes': nn, 'args': dict(FIXED[k])})
            for w in ((0.0, 100.0, 300.0) if L < 3 else (100.0,)):
                yield {'circuit': {'components': comps}, 'w': w, 'w_res': 1e-3, 'default_res': True}


TESTS = [
    Test('random', check_translation, strategy=translation_case, quick=12000, thorough=300000),
    Test('kind-position-table', check_translation, enumerate=table_cases, exhaustive=True),
]
