"""C05 - power is conserved and has the physically right sign."""
from __future__ import annotations
import math
import numpy as np
from hypothesis import strategies as st
from vlib.core import Test, R
from vlib import gen, refsolve as rs, tol, circuits as cc, dynamic as dy

PROPERTY = 'C05'
LEVEL = 'exploration'
RULE = ('networks of C01 (all element kinds incl. linear sources, complex values); circuits of C02 x frequency x peak/RMS and DC; '
        'multi-frequency circuits of C09 x time instants; transient runs of C12. Oracle: Tellegen sum of complex powers = 0 '
        '(linear sources counted as delivered), reported power recomputed from the separately queried V and I (V*conj(I), half of '
        'it for peak phasors, V*I for DC, v(t)*i(t) sample-wise), exact powers from the tableau reference, sign rules for '
        'resistors (real, >= 0, |I|^2 R), inductors (Q >= 0) and capacitors (Q <= 0) with element classes taken from the '
        'generated spec. Non-trivial = >= 1 source delivering non-zero power and >= 1 reactive or >= 2 dissipative elements; '
        'distinct = case hash.')
ASSUMPTIONS = ['reference directions of DESIGN.md 0.1', 'condition guard 1e8', 'sign rules are judged with slack 1e-6 of the power scale']

SQ2 = math.sqrt(2)


def check_network_power(case, r: R):
    from CircuitCalculator.Network.NodalAnalysis.bias_point_analysis import nodal_analysis_bias_point_solver as solver
    net = case['net']
    ref = rs.solve(net)
    if ref is None:
        return r.reject('ill-posed')
    if not rs.well_conditioned(net, tol.KAPPA_MAX):
        return r.reject('ill-conditioned')
    S_phi, S_I = tol.scales(net, ref)
    exp = rs.reports(net, ref)
    src_power = [abs(complex(exp[b['id']]['P'])) for b in net['branches'] if rs.law(b)[2]]
    dissip = sum(1 for b in net['branches'] if b['kind'] in rs.PASSIVE_KINDS)
    r.nt(any(p > 0 for p in src_power) and dissip >= 2)
    if any(b['kind'] in ('linv', 'lini') for b in net['branches']):
        r.cls('linear-source')
    r.cls('network')
    sol = None
    with r.lib('solve'):
        sol = solver(rs.lib_network(net))
    if sol is None:
        return
    total, scale = 0, 0.0
    with r.lib('powers'):
        for b in net['branches']:
            i, e = b['id'], exp[b['id']]
            P, V, I = sol.get_power(i), sol.get_voltage(i), sol.get_current(i)
            ps = S_phi * S_I[i]
            if not tol.close(P, V * np.conj(I), ps, 1e-12):
                r.fail('power-not-V-conj-I', f'{i!r}: {P} vs {V * np.conj(I)}')
            if not tol.close(P, e['P'], ps):
                r.fail('power-vs-exact', f'{i!r} ({b["kind"]}): lib {P} exact {complex(e["P"])}')
            total += -P if e['cls'] == 'linear' else P
            scale += ps
            if b['kind'] == 'resistor' and not isinstance(b['p']['R'], list) and b['p']['R'] > 0:
                if abs(complex(P).imag) > 1e-6 * ps or complex(P).real < -1e-6 * ps:
                    r.fail('resistor-power-sign', f'{i!r}: {P}')
                if not tol.close(P, abs(I) ** 2 * b['p']['R'], ps):
                    r.fail('resistor-power-value', f'{i!r}: {P} vs |I|^2 R = {abs(I) ** 2 * b["p"]["R"]}')
    if not tol.close(total, 0, scale):
        r.fail('power-not-conserved', f'sum {total} (scale {scale:.3g})')


@st.composite
def network_case(draw):
    return {'net': draw(gen.network(nmin=2, nmax=6, max_branches=10, min_sources=1, opens_shorts=draw(st.integers(0, 2)) == 0))}


def check_circuit_power(case, r: R):
    from CircuitCalculator.Circuit.solution import ComplexSolution, DCSolution
    import checks.c02 as c2
    p = c2.prepare(case, r)
    if p is None:
        return
    net, ref, (S_phi, S_I) = p
    spec, w, peak = case['circuit'], case['w'], case['peak']
    exp = rs.reports(net, ref)
    kinds = {c['id']: c for c in spec['components']}
    reactive = sum(1 for c in spec['components'] if c['kind'] in ('capacitor', 'inductance'))
    dissip = sum(1 for c in spec['components'] if c['kind'] in ('resistor', 'conductance', 'lamp', 'resistive_load', 'impedance', 'admittance'))
    r.nt(any(abs(complex(exp[b['id']]['P'])) > 0 for b in net['branches'] if rs.law(b)[2]) and (reactive >= 1 or dissip >= 2))
    r.cls('peak' if peak else 'rms', 'w=0' if w == 0 else 'w>0')
    k = 0.5 if peak else 0.5          # exact RMS power = V_peak*conj(I_peak)/2 either way
    sol = None
    with r.lib('ComplexSolution'):
        sol = ComplexSolution(cc.lib_circuit(spec), w=w, peak_values=peak)
    if sol is None:
        return
    total, scale = 0, 0.0
    with r.lib('powers'):
        for b in net['branches']:
            i, e = b['id'], exp[b['id']]
            P, V, I = sol.get_power(i), sol.get_voltage(i), sol.get_current(i)
            ps = S_phi * S_I[i] / 2
            want_from_own = (0.5 if peak else 1.0) * V * np.conj(I)
            if not tol.close(P, want_from_own, ps, 1e-12):
                r.fail('power-not-V-conj-I' + ('-half' if peak else ''), f'{i!r}: {P} vs {want_from_own}')
            if not tol.close(P, complex(e['P']) * k, ps):
                r.fail('power-vs-exact', f'{i!r} ({kinds[i]["kind"]}): lib {P} exact {complex(e["P"]) * k}')
            total += -P if e['cls'] == 'linear' else P
            scale += ps
            ck = kinds[i]['kind']
            Pc = complex(P)
            if ck == 'resistor' and 0 < kinds[i]['args']['R'] < math.inf:
                Irms = abs(I) / (SQ2 if peak else 1.0)
                if abs(Pc.imag) > 1e-6 * ps or Pc.real < -1e-6 * ps or not tol.close(Pc, Irms ** 2 * kinds[i]['args']['R'], ps):
                    r.fail('resistor-power', f'{i!r}: {P}, |I_rms|^2 R = {Irms ** 2 * kinds[i]["args"]["R"]}')
            if ck == 'inductance' and (abs(Pc.real) > 1e-6 * ps or Pc.imag < -1e-6 * ps):
                r.fail('inductor-power-sign', f'{i!r}: {P}')
            if ck == 'capacitor' and (abs(Pc.real) > 1e-6 * ps or Pc.imag > 1e-6 * ps):
                r.fail('capacitor-power-sign', f'{i!r}: {P}')
    if not tol.close(total, 0, scale):
        r.fail('power-not-conserved', f'sum {total} (scale {scale:.3g})')
    if w == 0:
        r.cls('dc')
        with r.lib('DCSolution'):
            dc = DCSolution(cc.lib_circuit(spec))
            tot, sc = 0.0, 0.0
            for b in net['branches']:
                i, e = b['id'], exp[b['id']]
                P = dc.get_power(i)
                ps = S_phi * S_I[i]
                if not tol.close(P, dc.get_voltage(i) * dc.get_current(i), ps, 1e-12):
                    r.fail('dc-power-not-V-times-I', f'{i!r}')
                want = complex(e['V']).real * complex(e['I']).real
                if not tol.close(P, want, ps):
                    r.fail('dc-power-vs-exact', f'{i!r}: lib {P} exact {want}')
                tot += -P if e['cls'] == 'linear' else P
                sc += ps
            if not tol.close(tot, 0, sc):
                r.fail('dc-power-not-conserved', f'sum {tot}')


@st.composite
def circuit_case(draw):
    import checks.c02 as c2
    return draw(c2.phasor_case())


def check_time_power(case, r: R):
    """instantaneous powers of the multi-frequency steady state: p = v*i and sum over all elements = 0 at every instant"""
    from CircuitCalculator.Circuit.solution import TimeDomainSolution
    import checks.c09 as c9
    p = c9.prepare(case, r)
    if p is None:
        return
    freqs, cl, sols = p
    spec = case['circuit']
    comps = [c for c in spec['components'] if c['kind'] != 'ground']
    r.nt(len(freqs) >= 2 and any(c['kind'] in ('capacitor', 'inductance') for c in comps))
    r.cls('time-domain')
    S_phi = max(s[3][0] for s in sols)
    S_I = {i: max(s[3][1][i] for s in sols) for i in sols[0][3][1]}
    ts = np.array(case['times'], dtype=float) * (2 * math.pi / (min([f for f in freqs if f > 0] + [1.0])))
    td = None
    with r.lib('TimeDomainSolution'):
        td = TimeDomainSolution(cc.lib_circuit(spec), w_max=case['w_max'])
    if td is None:
        return
    nf = len(freqs)
    with r.lib('instantaneous-power'):
        tot, sc = np.zeros(len(ts)), 0.0
        for c in comps:
            i = c['id']
            pw = np.asarray(td.get_power(i)(ts), dtype=float)
            v = np.asarray(td.get_voltage(i)(ts), dtype=float)
            cur = np.asarray(td.get_current(i)(ts), dtype=float)
            ps = S_phi * S_I[i] * nf * nf
            if np.abs(pw - v * cur).max() > 1e-9 * ps:
                r.fail('power-not-v-times-i', f'{i!r}')
            tot, sc = tot + pw, sc + ps
        if np.abs(tot).max() > 1e-6 * sc:
            r.fail('instantaneous-power-not-conserved', f'max |sum p| = {np.abs(tot).max()} (scale {sc:.3g})')


@st.composite
def time_case(draw):
    import checks.c09 as c9
    # ideal sources only: the sum over all elements needs one sign convention per element, which the time function of a
    # lossy periodic source does not have (DESIGN.md section 5, observations)
    return draw(c9.multi_case(lossy_prob=0))


def check_transient_power(case, r: R):
    from CircuitCalculator.Circuit.solution import TransientSolution
    import checks.c12 as c12
    p = c12.prepare(case, r)
    if p is None:
        return
    ref, A, B, ev = p
    spec = case['circuit']
    comps, caps, inds, vsrc, isrc = dy.parts(spec)
    N = 300
    dt = 1 / np.abs(ev).max() / 20
    t = np.arange(N) * dt
    funcs = {}
    for c in vsrc + isrc:
        val = c['args'].get('V', c['args'].get('I'))
        funcs[c['id']] = (lambda v: (lambda tt: v * np.interp(np.asarray(tt, float) / dt, [0, 1, N // 2, N // 2 + 3, N], [0, 1, 1, -0.4, -0.4])))(val)
    r.nt(len(ref.states) >= 1 and any(c['kind'] == 'resistor' for c in comps))
    r.cls('transient')
    sol = None
    with r.lib('TransientSolution'):
        sol = TransientSolution(cc.lib_circuit(spec), tin=t, input=funcs)
    if sol is None:
        return
    with r.lib('powers'):
        tot = np.zeros(N)
        data = {}
        for c in comps:
            i = c['id']
            data[i] = (np.asarray(sol.get_voltage(i)[1], float), np.asarray(sol.get_current(i)[1], float), np.asarray(sol.get_power(i)[1], float))
        vmax = max(np.abs(d[0]).max() for d in data.values())
        imax = max(np.abs(d[1]).max() for d in data.values())
        Rs = [c['args']['R'] for c in comps if c['kind'] == 'resistor'] or [1.0]
        uV = max([abs(c['args']['V']) for c in vsrc] + [0.0])
        uI = max([abs(c['args']['I']) for c in isrc] + [0.0])
        vmax = max(vmax, uV, max(imax, uI) * max(Rs))
        imax = max(imax, uI, vmax / max(Rs))
        for c in comps:
            v, cur, pw = data[c['id']]
            if np.abs(pw - v * cur).max() > 1e-9 * vmax * imax:
                r.fail('power-not-v-times-i', f'{c["id"]!r}')
            if c['kind'] == 'resistor' and pw.min() < -1e-6 * vmax * imax:
                r.fail('resistor-absorbs-negative-power', f'{c["id"]!r}: min {pw.min()}')
            tot = tot + pw
        if np.abs(tot).max() > 1e-6 * vmax * imax * len(comps):
            r.fail('instantaneous-power-not-conserved', f'max |sum p| = {np.abs(tot).max()}')


@st.composite
def transient_case(draw):
    return {'circuit': draw(dy.any_dynamic(max_states=4))}


TESTS = [
    Test('network', check_network_power, strategy=network_case, quick=2500, thorough=40000),
    Test('circuit', check_circuit_power, strategy=circuit_case, quick=2500, thorough=40000),
    Test('time-domain', check_time_power, strategy=time_case, quick=600, thorough=6000),
    Test('transient', check_transient_power, strategy=transient_case, quick=500, thorough=5000),
]
