"""C09 - multi-frequency steady state is the superposition of single-frequency solutions."""
from __future__ import annotations
import copy, math, cmath
import numpy as np
from hypothesis import strategies as st
from vlib.core import Test, R
from vlib import gen, circuits as cc, refsolve as rs, tol

PROPERTY = 'C09'
LEVEL = 'exploration'
RULE = ('random RLC circuits with a mix of DC, sinusoidal and periodic (const/cos/sin/rect/tri/saw) ideal sources whose frequencies '
        'are multiples of a base frequency (so that harmonics of different sources coincide, bit-exactly or only up to rounding) x '
        'w_max below / at (dyadic only) / above a harmonic x 8 evaluation instants x one-/two-sided spectra. Oracle: my own list of '
        'distinct physical frequencies; exact tableau phasor at every frequency (true Fourier coefficients); time function = '
        'sum of Re{X_k e^{jw_k t}}; KCL at every instant; sum of the single-source time functions; a periodic voltage source '
        'reproduces its own waveform within the Bessel bound; two-sided mirror symmetry. Non-trivial = >= 2 distinct analysed '
        'frequencies and >= 1 reactive element; distinct = case hash.')
ASSUMPTIONS = ['all sources ideal (an inactive lossy source is the corner where statement, physics and code disagree)',
               'cases in which two distinct frequencies are between 1e-12 relative and 2e-3 rad/s apart are not judged',
               'w_max keeps >= 1e-9 relative distance from every harmonic unless w0 and k are dyadic']

W_RES = 1e-3


def source_freqs(c, w_max):
    k, a = c['kind'], c['args']
    if k in ('dc_voltage_source', 'dc_current_source'):
        return [0.0]
    if k in ('ac_voltage_source', 'ac_current_source'):
        return [a['w']]
    if k in ('periodic_voltage_source', 'periodic_current_source'):
        q = w_max / a['w']
        n = math.floor(q)
        frac = q - n
        dyadic = (a['w'] * 1024).is_integer() and (w_max * 1024).is_integer()
        if (frac < 1e-9 or frac > 1 - 1e-9) and not dyadic:
            raise cc.Boundary()
        return [a['w'] * i for i in range(n + 1)]
    return []


def clusters(fs):
    """distinct physical frequencies: values closer than the resolution are one frequency"""
    fs = sorted(fs)
    out = []
    for f in fs:
        if out and f - out[-1][0] <= W_RES:
            out[-1].append(f)
        else:
            out.append([f])
    return out


def wave_value(wave, A, w0, phi, t):
    x = (w0 * t + phi) / (2 * math.pi)
    fr = x - np.floor(x)
    if wave == 'const':
        return A * np.ones_like(t)
    if wave == 'cos':
        return A * np.cos(w0 * t + phi)
    if wave == 'sin':
        return A * np.sin(w0 * t + phi)
    if wave == 'rect':
        return np.where(fr < 0.5, A, -A)
    if wave == 'tri':
        return np.where(fr < 0.5, A * (1 - 4 * fr), A * (-3 + 4 * fr))
    if wave == 'saw':
        return A * (2 * fr - 1)
    raise ValueError(wave)


def prepare(case, r: R):
    spec, w_max = case['circuit'], case['w_max']
    try:
        allf = [f for c in spec['components'] for f in source_freqs(c, w_max)]
    except cc.Boundary:
        r.reject('w_max at a harmonic boundary')
        return None
    if not allf:
        r.reject('no source')
        return None
    cl = clusters(allf)
    for g in cl:
        if g[-1] - g[0] > 0.8 * W_RES:
            # members of one cluster must all lie within the resolution of each other (no chains), clusters well apart
            r.reject('ambiguous frequency spacing')
            return None
    for a, b in zip(cl, cl[1:]):
        if b[0] - a[-1] <= 1.2 * W_RES:
            r.reject('ambiguous frequency spacing')
            return None
    freqs = [g[0] for g in cl]
    if case.get('_listed'):
        # analyse at the frequency the library lists for each cluster, provided it is a member's frequency range
        listed = sorted(case['_listed'])
        if len(listed) == len(cl) and all(g[0] - 1e-9 * max(g[0], 1e-300) <= f <= g[-1] + 1e-9 * max(g[-1], 1e-300) for f, g in zip(listed, cl)):
            freqs = [float(f) for f in listed]
    sols = []
    for f in freqs:
        try:
            net = cc.network_of(spec, f, W_RES)
        except cc.Boundary:
            r.reject('activation boundary')
            return None
        sol = rs.solve(net)
        if sol is None:
            r.reject('ill-posed at some frequency')
            return None
        if not rs.well_conditioned(net, tol.KAPPA_MAX):
            r.reject('ill-conditioned at some frequency')
            return None
        sols.append((f, net, sol, tol.scales(net, sol)))
    return freqs, cl, sols


def check_multifrequency(case, r: R):
    from CircuitCalculator.Circuit.circuit import frequency_components
    from CircuitCalculator.Circuit.solution import TimeDomainSolution, FrequencyDomainSolution
    spec, w_max = case['circuit'], case['w_max']
    listed = None
    with r.lib('frequency_components'):
        listed = [float(x) for x in frequency_components(cc.lib_circuit(spec), w_max)]
    p = prepare(dict(case, _listed=listed), r)
    if p is None:
        return
    freqs, cl, sols = p
    comps = [c for c in spec['components'] if c['kind'] != 'ground']
    kinds = [c['kind'] for c in comps]
    if any(g[-1] - g[0] > 1e-9 * max(g[-1], 1e-300) for g in cl):
        r.cls('coinciding-within-resolution')
    r.nt(len(freqs) >= 2 and any(k in ('capacitor', 'inductance') for k in kinds))
    if any(len(g) > 1 for g in cl):
        r.cls('coinciding-frequencies')
    if any(len(set(g)) > 1 for g in cl):
        r.cls('coinciding-up-to-rounding')
    if any(k.startswith('periodic') for k in kinds) and any(k.startswith('ac_') for k in kinds):
        r.cls('periodic+ac')
    if any(k.startswith('periodic') for k in kinds) and any(k.startswith('dc_') for k in kinds):
        r.cls('dc+periodic')
    r.cls(f'frequencies={min(len(freqs), 8)}')
    S_phi = max(s[3][0] for s in sols)
    S_I = {i: max(s[3][1][i] for s in sols) for i in sols[0][3][1]}
    nodes = rs.nodes_of(sols[0][1])
    ids = [c['id'] for c in comps]
    circuit = None
    with r.lib('build'):
        circuit = cc.lib_circuit(spec)
    if circuit is None:
        return
    # (a) analysed frequencies: each physical frequency exactly once
    with r.lib('frequency_components'):
        fl = list(frequency_components(circuit, w_max))
        ok = len(fl) == len(cl) and all(g[0] - 1e-9 * max(g[0], 1e-300) <= a <= g[-1] + 1e-9 * max(g[-1], 1e-300) for a, g in zip(sorted(fl), cl))
        if not ok:
            r.fail('frequency-list', {'library': fl, 'expected-one-per-cluster': cl})
        if fl != sorted(fl):
            r.fail('frequency-list-unsorted', str(fl))
    # exact phasors per frequency
    X = {}
    for f, net, sol, _ in sols:
        rep = rs.reports(net, sol)
        for n in nodes:
            X[('phi', n, f)] = complex(sol['phi'][n])
        for i in ids:
            X[('V', i, f)] = complex(rep[i]['V'])
            X[('I', i, f)] = complex(rep[i]['I'])
    ts = np.array(case['times'], dtype=float) * (2 * math.pi / (min([f for f in freqs if f > 0] + [1.0])))

    def synth(kind, name):
        return sum((X[(kind, name, f)] * np.exp(1j * f * ts)).real for f in freqs)

    # (c) time functions
    td = None
    with r.lib('TimeDomainSolution'):
        td = TimeDomainSolution(circuit, w_max=w_max)
    got_I = {}
    if td is not None:
        with r.lib('time-functions'):
            for n in nodes:
                y = np.asarray(td.get_potential(n)(ts), dtype=float)
                if np.abs(y - synth('phi', n)).max() > 1e-6 * S_phi * len(freqs):
                    r.fail('time-function-potential', f'node {n!r}: max deviation {np.abs(y - synth("phi", n)).max()} (scale {S_phi:.3g})')
            for i in ids:
                y = np.asarray(td.get_voltage(i)(ts), dtype=float)
                if np.abs(y - synth('V', i)).max() > 1e-6 * S_phi * len(freqs):
                    r.fail('time-function-voltage', f'{i!r}: max deviation {np.abs(y - synth("V", i)).max()}')
                yi = np.asarray(td.get_current(i)(ts), dtype=float)
                got_I[i] = yi
                if np.abs(yi - synth('I', i)).max() > 1e-6 * S_I[i] * len(freqs):
                    r.fail('time-function-current', f'{i!r}: max deviation {np.abs(yi - synth("I", i)).max()} (scale {S_I[i]:.3g})')
                pw = np.asarray(td.get_power(i)(ts), dtype=float)
                if np.abs(pw - y * yi).max() > 1e-9 * S_phi * S_I[i] * len(freqs) ** 2:
                    r.fail('instantaneous-power', f'{i!r}')
        # (d) KCL at every instant
        if len(got_I) == len(ids):
            for n in nodes:
                s, sc = np.zeros(len(ts)), 0.0
                # a source with an internal resistance / conductance reports its current in the generator convention where
                # it is active and in the passive convention at the frequencies where its value is zero (DESIGN.md 0.1):
                # its time function mixes the two, so nodes it touches are judged per frequency only (spectral lines above)
                if any(cc.is_lossy_source(c) and n in c['nodes'] for c in comps):
                    r.cls('instant-kcl-skipped-at-lossy-source-node')
                    continue
                for c in comps:
                    if c['nodes'][0] == n:
                        s = s + got_I[c['id']]; sc += S_I[c['id']]
                    if c['nodes'][1] == n:
                        s = s - got_I[c['id']]; sc += S_I[c['id']]
                if np.abs(s).max() > 1e-6 * sc * len(freqs):
                    r.fail('kcl-at-instant', f'node {n!r}: residual {np.abs(s).max()}')
    # (b) spectral lines
    fd = None
    with r.lib('FrequencyDomainSolution'):
        fd = FrequencyDomainSolution(circuit, w_max=w_max)
    if fd is not None and len(fl) == len(freqs):
        with r.lib('spectral-lines'):
            for n in nodes:
                w_, x_ = fd.get_potential(n)
                if len(w_) != len(freqs) or len(x_) != len(freqs):
                    r.fail('spectral-axis', f'{len(w_)} frequencies / {len(x_)} lines reported, {len(freqs)} expected: {list(np.asarray(w_, dtype=float))} vs {freqs}')
                    break
                for k, f in enumerate(freqs):
                    if not tol.close(x_[k], X[('phi', n, f)], S_phi):
                        r.fail('spectral-line-potential', f'node {n!r} at w={f}: lib {x_[k]} exact {X[("phi", n, f)]}')
                if len(w_) != len(freqs):
                    r.fail('spectral-axis', f'{len(w_)} lines')
            for i in ids if not r.failures else []:
                _, x_ = fd.get_current(i)
                _, v_ = fd.get_voltage(i)
                for k, f in enumerate(freqs):
                    if not tol.close(x_[k], X[('I', i, f)], S_I[i]):
                        r.fail('spectral-line-current', f'{i!r} at w={f}: lib {x_[k]} exact {X[("I", i, f)]}')
                    if not tol.close(v_[k], X[('V', i, f)], S_phi):
                        r.fail('spectral-line-voltage', f'{i!r} at w={f}: lib {v_[k]} exact {X[("V", i, f)]}')
    # (e) superposition over the sources: each source alone (the others at zero amplitude)
    srcs = [c for c in comps if c['kind'] in cc.SOURCE_KINDS]
    if td is not None and 2 <= len(srcs) <= 4 and not r.failures:
        r.cls('single-source-superposition')
        acc = {n: np.zeros(len(ts)) for n in nodes}
        good = True
        for s in srcs:
            alone = copy.deepcopy(spec)
            for c in alone['components']:
                if c['kind'] in cc.SOURCE_KINDS and c['id'] != s['id']:
                    key = 'V' if 'voltage' in c['kind'] else 'I'
                    c['args'][key] = 0.0
            with r.lib('single-source'):
                t1 = TimeDomainSolution(cc.lib_circuit(alone), w_max=w_max)
                for n in nodes:
                    acc[n] = acc[n] + np.asarray(t1.get_potential(n)(ts), dtype=float)
                continue
            good = False
        if good:
            with r.lib('superposition'):
                for n in nodes:
                    y = np.asarray(td.get_potential(n)(ts), dtype=float)
                    if np.abs(y - acc[n]).max() > 1e-6 * S_phi * len(freqs) * len(srcs):
                        r.fail('sum-of-single-source-responses', f'node {n!r}: deviation {np.abs(y - acc[n]).max()}')
    # (f) an ideal periodic voltage source reproduces its own waveform up to the truncation error
    if td is not None:
        for c in comps:
            if c['kind'] != 'periodic_voltage_source' or c['args']['wavetype'] == 'const' or cc.is_lossy_source(c):
                continue
            a = c['args']
            nh = int(math.floor(w_max / a['w'] + 1e-9))
            if nh < 3:
                continue
            r.cls('waveform-reproduction')
            M = 720
            tt = (np.arange(M) + 0.37) * (2 * math.pi / a['w'] / M)
            with r.lib('waveform-reproduction'):
                v = np.asarray(td.get_voltage(c['id'])(tt), dtype=float)
                f = wave_value(a['wavetype'], a['V'], a['w'], a.get('phi', 0.0), tt)
                mse = float(np.mean((v - f) ** 2))
                tv = 4 * abs(a['V'])
                bound = tv * tv / (2 * math.pi ** 2 * nh)
                if mse > 1.25 * bound + 0.01 * a['V'] ** 2:
                    r.fail('waveform-not-reproduced', f'{c["id"]!r} ({a["wavetype"]}, {nh} harmonics): mean square error {mse:.4g} > bound {bound:.4g}')
    # (g) two-sided spectrum: mirror symmetry and real synthesis
    if case.get('two_sided'):
        r.cls('two-sided')
        fd2 = None
        with r.lib('FrequencyDomainSolution[two-sided]'):
            fd2 = FrequencyDomainSolution(circuit, w_max=w_max, one_sided=False)
        if fd2 is not None:
            with r.lib('two-sided-lines'):
                for n in nodes:
                    w_, x_ = fd2.get_potential(n)
                    w_, x_ = np.asarray(w_, float), np.asarray(x_, complex)
                    for k, wk in enumerate(w_):
                        j = int(np.argmin(np.abs(w_ + wk)))
                        if abs(w_[j] + wk) > 1e-9 * max(abs(wk), 1e-300) or not tol.close(x_[j], np.conj(x_[k]), S_phi):
                            r.fail('two-sided-not-hermitian', f'node {n!r}: line at {wk}')
                    y = sum(x_[k] * np.exp(1j * w_[k] * ts) for k in range(len(w_)))
                    if np.abs(np.imag(y)).max() > 1e-6 * S_phi * len(freqs) or np.abs(np.real(y) - synth('phi', n)).max() > 1e-6 * S_phi * len(freqs):
                        r.fail('two-sided-synthesis', f'node {n!r}')


def known_two_sided(case, sub, detail):
    return bool(case.get('two_sided')) and sub.startswith('FrequencyDomainSolution[two-sided]:raised')


KNOWN = {'F8': known_two_sided}


@st.composite
def multi_case(draw, lossy_prob=3):
    dyadic = draw(st.sampled_from([False, True, False]))
    w0 = draw(st.sampled_from([1.0, 0.5, 2.0, 64.0, 0.25])) if dyadic else draw(st.sampled_from([0.1, 0.3, 50.0, 2 * math.pi * 50, 314.0, 0.7, 1000.0 / 3]))
    # frequencies offered to the sources: the base frequency (for the periodic sources, so that harmonics exist) and
    # multiples of it written in two ways: the float product k*w0 and the decimal literal of the same number
    ks = draw(st.lists(st.sampled_from([2, 3, 3, 5, 6, 7]), min_size=1, max_size=2, unique=True))
    others = []
    for k in ks:
        others += [w0 * k, float(f'{w0 * k:.12g}')]
    if draw(st.sampled_from([False, True])):
        # coincidence only to within the frequency resolution (1e-3 rad/s), on either side of a rounding boundary
        others = [others[0] + draw(st.sampled_from([4e-4, 6e-4, -3e-4, 7.5e-4, -5.5e-4, 2e-4]))] + others
    spec = draw(cc.circuit(2, 5, 8, source_kinds_v=('dc_voltage_source', 'ac_voltage_source', 'periodic_voltage_source', 'periodic_voltage_source'),
                           source_kinds_i=('dc_current_source', 'ac_current_source', 'periodic_current_source'), w_pool=[w0], lossy_prob=lossy_prob,
                           min_sources=2, forced_lossy=False,
                           passive=['resistor', 'resistor', 'conductance', 'capacitor', 'capacitor', 'inductance', 'inductance', 'lamp']))
    srcs = [c for c in spec['components'] if c['kind'] in cc.SOURCE_KINDS]
    for c in srcs:
        if c['kind'].startswith('ac_'):
            c['args']['w'] = draw(st.sampled_from(others + [w0]))
        if c['kind'].startswith('periodic') and draw(st.sampled_from([False, False, True])):
            c['args']['w'] = draw(st.sampled_from(others[:2] + [w0]))
    if srcs and not any(c['kind'].startswith('periodic') for c in srcs):
        c = srcs[0]
        kind = 'periodic_voltage_source' if 'voltage' in c['kind'] else 'periodic_current_source'
        amp = draw(gen.signed_real(-2, 2))
        c['kind'], c['args'] = kind, {'wavetype': draw(st.sampled_from(cc.WAVES)), ('V' if 'voltage' in kind else 'I'): amp, 'w': w0, 'phi': draw(cc.phase)}
    K = draw(st.sampled_from([3, 4, 5, 6, 7, 9, 12, 1, 2]))
    mode = draw(st.sampled_from([0, 1, 2]))
    if mode == 0 and dyadic:
        w_max = K * w0
    elif mode == 1:
        w_max = (K + 0.5) * w0
    else:
        w_max = (K + draw(st.sampled_from([0.25, 0.75, 0.9]))) * w0
    times = draw(st.lists(st.floats(-3, 3, allow_nan=False), min_size=8, max_size=8))
    return {'circuit': spec, 'w_max': w_max, 'times': times, 'two_sided': draw(st.sampled_from([False, False, False, False, True]))}


TESTS = [
    Test('multifrequency', check_multifrequency, strategy=multi_case, quick=2500, thorough=30000),
]
