import os, subprocess, sys, traceback


def setup() -> int:
    """MANIFEST.setup_cmd: make sure hypothesis is importable in /venv (offline) and the repo sources import."""
    try:
        import hypothesis  # noqa: F401
    except ImportError:
        rc = subprocess.call(['/venv/bin/pip', 'install', '--no-index', '--find-links', '/opt/veriftools/wheels', 'hypothesis'])
        if rc != 0:
            return 2
    from . import env
    env.setup()
    import numpy, scipy, yaml, schemdraw  # noqa: F401,E401
    print('setup ok: sources at', env.SRC)
    return 0


def main(argv) -> int:
    if not argv:
        print('usage: run Cxx quick|thorough | run --replay <file> | run --setup')
        return 2
    from . import env
    try:
        if argv[0] == '--setup':
            return setup()
        from . import core
        if argv[0] == '--replay':
            return core.run_replay(argv[1])
        prop = argv[0].upper()
        tier = argv[1] if len(argv) > 1 else os.environ.get('VERIF_TIER', 'quick')
        if tier not in ('quick', 'thorough'):
            tier = 'quick'
        return core.run_property(f'checks.{prop.lower()}', tier)
    except env.HarnessError as e:
        print('HARNESS ERROR:', e)
        return 2
    except Exception:
        traceback.print_exc()
        print('HARNESS ERROR (unexpected exception in the verification machinery)')
        return 2


if __name__ == '__main__':
    sys.exit(main(sys.argv[1:]))
