"""Circuit-level specs: plain-data component lists, the library builder, and an independent component -> branch table.

component spec: {"kind": <constructor name>, "id": str, "nodes": [a, b] | [a], "args": {...constructor keyword arguments...}}
complex arguments are [re, im].
"""
from __future__ import annotations
import math, cmath
from fractions import Fraction as F
from hypothesis import strategies as st
from . import gen
from .refsolve import cx

SOURCE_KINDS_V = ('dc_voltage_source', 'ac_voltage_source', 'complex_voltage_source', 'periodic_voltage_source')
SOURCE_KINDS_I = ('dc_current_source', 'ac_current_source', 'complex_current_source', 'periodic_current_source')
SOURCE_KINDS = SOURCE_KINDS_V + SOURCE_KINDS_I
WAVES = ['const', 'cos', 'sin', 'rect', 'tri', 'saw']


class Boundary(Exception):
    """the analysed frequency is too close to an activation boundary for the verdict to be independent of rounding"""


def lib_component(c):
    from CircuitCalculator.Circuit import components as ccp
    k, a = c['kind'], dict(c.get('args', {}))
    for key in ('Z', 'Y', 'V', 'I'):
        if key in a and isinstance(a[key], list):
            a[key] = complex(*a[key])
    if k in ('complex_voltage_source',) and not isinstance(a.get('V'), complex):
        a['V'] = complex(a['V'])
    if k in ('complex_current_source',) and not isinstance(a.get('I'), complex):
        a['I'] = complex(a['I'])
    if k == 'impedance':
        a['Z'] = complex(a['Z'])
    if k == 'admittance':
        a['Y'] = complex(a['Y'])
    if k == 'ground':
        return ccp.ground(id=c['id'], nodes=(c['nodes'][0],))
    return getattr(ccp, k)(id=c['id'], nodes=tuple(c['nodes']), **a)


def lib_circuit(spec):
    from CircuitCalculator.Circuit.circuit import Circuit
    return Circuit([lib_component(c) for c in spec['components']])


def ground_of(spec) -> str:
    g = [c['nodes'][0] for c in spec['components'] if c['kind'] == 'ground']
    if g:
        return g[0]
    return spec['components'][0]['nodes'][0]


def fourier_phasor(wave: str, A: float, phi: float, n: int) -> complex:
    """true n-th harmonic A_n*exp(j*phi_n) (peak phasor; n=0: mean value) of the built-in waveforms with zero offset -
    written from the textbook series, validated against numerical integration of the time functions by C08"""
    if wave == 'const':
        return complex(A) if n == 0 else 0j
    if n == 0:
        return 0j
    if wave == 'cos':
        return A * cmath.exp(1j * phi) if n == 1 else 0j
    if wave == 'sin':
        return A * cmath.exp(1j * (phi - math.pi / 2)) if n == 1 else 0j
    if wave == 'rect':
        return 4 * A / (n * math.pi) * cmath.exp(1j * (n * phi - math.pi / 2)) if n % 2 else 0j
    if wave == 'tri':
        return 8 * A / (n * n * math.pi ** 2) * cmath.exp(1j * n * phi) if n % 2 else 0j
    if wave == 'saw':
        return -2 * A / (n * math.pi) * cmath.exp(1j * (n * phi - math.pi / 2))
    raise ValueError(wave)


def _active(w: float, ws: float, w_res: float) -> bool:
    d = abs(w - ws)
    if d == 0:
        return True         # bit-identical frequencies are "the source's own frequency" for every resolution >= 0
    if abs(d - w_res) <= 1e-6 * w_res + 1e-9 * max(abs(w), abs(ws)):
        raise Boundary()
    return d <= w_res


def _c(z: complex):
    return [z.real, z.imag]


def branch_of(c, w: float, w_res: float = 1e-3):
    """independent translation of one component at angular frequency w into a branch spec of refsolve
    (None for the ground symbol)"""
    k, a = c['kind'], c.get('args', {})
    base = {'id': c['id'], 'n1': c['nodes'][0], 'n2': c['nodes'][1] if len(c['nodes']) > 1 else None}

    def passive_R(R):
        if R == 0:
            return dict(base, kind='short', p={})
        if math.isinf(R):
            return dict(base, kind='open', p={})
        return dict(base, kind='resistor', p={'R': R})

    def passive_G(G):
        if G == 0:
            return dict(base, kind='open', p={})
        if math.isinf(G):
            return dict(base, kind='short', p={})
        return dict(base, kind='conductor', p={'G': G})

    def vsrc(V: complex, Z):
        Zc = complex(*Z) if isinstance(Z, list) else complex(Z)
        if Zc == 0:
            return dict(base, kind='vsrc' if V != 0 else 'short', p={'V': _c(V)} if V != 0 else {})
        return dict(base, kind='linv', p={'V': _c(V), 'Z': _c(Zc)})

    def isrc(I: complex, Y):
        Yc = complex(*Y) if isinstance(Y, list) else complex(Y)
        if Yc == 0:
            return dict(base, kind='isrc' if I != 0 else 'open', p={'I': _c(I)} if I != 0 else {})
        return dict(base, kind='lini', p={'I': _c(I), 'Y': _c(Yc)})

    if k == 'ground':
        return None
    if k == 'resistor':
        return passive_R(a['R'])
    if k == 'conductance':
        return passive_G(a['G'])
    if k == 'impedance':
        Z = complex(*a['Z']) if isinstance(a['Z'], list) else complex(a['Z'])
        return dict(base, kind='short', p={}) if Z == 0 else dict(base, kind='impedance', p={'Z': _c(Z)})
    if k == 'admittance':
        Y = complex(*a['Y']) if isinstance(a['Y'], list) else complex(a['Y'])
        return dict(base, kind='open', p={}) if Y == 0 else dict(base, kind='admittance', p={'Y': _c(Y)})
    if k == 'capacitor':
        B = w * a['C']
        return dict(base, kind='open', p={}) if B == 0 else dict(base, kind='admittance', p={'Y': [0.0, B]})
    if k == 'inductance':
        X = w * a['L']
        return dict(base, kind='short', p={}) if X == 0 else dict(base, kind='impedance', p={'Z': [0.0, X]})
    if k in ('lamp', 'resistive_load'):
        if a['P'] == 0:
            return dict(base, kind='open', p={})
        return dict(base, kind='load', p={'P': a['P'], 'Q': 0, 'V_ref': a['V_ref']})
    if k == 'short_circuit':
        return dict(base, kind='short', p={})
    if k == 'dc_voltage_source':
        return vsrc(complex(a['V']), a.get('R', 0)) if _active(w, 0.0, w_res) else dict(base, kind='short', p={})
    if k == 'ac_voltage_source':
        if _active(w, a.get('w', 0), w_res):
            return vsrc(a['V'] * cmath.exp(1j * a.get('phi', 0)), a.get('R', 0))
        return dict(base, kind='short', p={})
    if k == 'complex_voltage_source':
        return vsrc(complex(*a['V']) if isinstance(a['V'], list) else complex(a['V']), a.get('Z', 0))
    if k == 'dc_current_source':
        return isrc(complex(a['I']), a.get('G', 0)) if _active(w, 0.0, w_res) else dict(base, kind='open', p={})
    if k == 'ac_current_source':
        if _active(w, a.get('w', 0), w_res):
            return isrc(a['I'] * cmath.exp(1j * a.get('phi', 0)), a.get('G', 0))
        return dict(base, kind='open', p={})
    if k == 'complex_current_source':
        return isrc(complex(*a['I']) if isinstance(a['I'], list) else complex(a['I']), a.get('Y', 0))
    if k in ('periodic_voltage_source', 'periodic_current_source'):
        w0 = a['w']
        n = int(round(w / w0))
        if w_res == 0 and w != 0:
            raise Boundary()    # exact matching of a harmonic depends on how w / w0 rounds: not judged
        if n < 0 or not _active(w, n * w0, w_res):
            return dict(base, kind='short' if k == 'periodic_voltage_source' else 'open', p={})
        amp = a['V'] if k == 'periodic_voltage_source' else a['I']
        X = fourier_phasor(a['wavetype'], amp, a.get('phi', 0), n)
        if k == 'periodic_voltage_source':
            return vsrc(X, a.get('R', 0))
        return isrc(X, a.get('G', 0))
    raise ValueError(k)


def network_of(spec, w: float, w_res: float = 1e-3):
    """the network spec (refsolve format) of the circuit at angular frequency w according to the statement"""
    return {'ref': ground_of(spec), 'branches': [b for b in (branch_of(c, w, w_res) for c in spec['components']) if b is not None]}


def source_frequency(c):
    k, a = c['kind'], c.get('args', {})
    if k in ('dc_voltage_source', 'dc_current_source'):
        return 0.0
    if k in ('ac_voltage_source', 'ac_current_source', 'periodic_voltage_source', 'periodic_current_source'):
        return a.get('w', 0.0)
    return None


def is_lossy_source(c) -> bool:
    a = c.get('args', {})
    return c['kind'] in SOURCE_KINDS and any(a.get(k, 0) not in (0, 0.0, [0.0, 0.0]) for k in ('R', 'G', 'Z', 'Y'))


# ---------------------------------------------------------------------------------------------------------------
# strategies

freq = st.one_of(gen.pos_real(-1, 5), st.sampled_from([1.0, 50.0, 314.0, 1000.0, 2 * math.pi * 50]))
# phases of any number of turns, but not denormal-small ones (1e-300 rad): products of such numbers underflow to
# denormals, for which the display code raises OverflowError - outside every quantifier (DESIGN.md section 5)
phase = st.one_of(st.sampled_from([0.0, math.pi / 2, -math.pi / 2, math.pi, 1.0, -2.5]),
                  st.floats(-20, 20, allow_nan=False).map(lambda x: 0.0 if abs(x) < 1e-6 else x))


@st.composite
def component_args(draw, kind, w_pool=None, lossy=False):
    """constructor arguments for a component kind; sources take their frequency from w_pool when given"""
    R, G = gen.pos_real(-2, 4), gen.pos_real(-4, 2)
    w = draw(st.sampled_from(w_pool)) if w_pool else draw(freq)
    if kind == 'resistor':
        return {'R': draw(R)}
    if kind == 'conductance':
        return {'G': draw(G)}
    if kind == 'impedance':
        return {'Z': draw(gen.passive_complex(-2, 4))}
    if kind == 'admittance':
        return {'Y': draw(gen.passive_complex(-4, 2))}
    if kind == 'capacitor':
        return {'C': draw(gen.pos_real(-9, -2))}
    if kind == 'inductance':
        return {'L': draw(gen.pos_real(-6, 1))}
    if kind in ('lamp', 'resistive_load'):
        V = draw(gen.pos_real(0, 3))
        y = draw(G)
        return {'P': float(f'{y * V * V:.3g}'), 'V_ref': V}
    if kind == 'short_circuit':
        return {}
    if kind == 'dc_voltage_source':
        a = {'V': draw(gen.signed_real(-2, 3))}
        if lossy:
            a['R'] = draw(R)
        return a
    if kind == 'ac_voltage_source':
        a = {'V': draw(gen.signed_real(-2, 3)), 'w': w, 'phi': draw(phase)}
        if lossy:
            a['R'] = draw(R)
        return a
    if kind == 'complex_voltage_source':
        a = {'V': draw(gen.complex_val(-2, 3))}
        if lossy:
            a['Z'] = draw(gen.passive_complex(-2, 4))
        return a
    if kind == 'periodic_voltage_source':
        a = {'wavetype': draw(st.sampled_from(WAVES)), 'V': draw(gen.signed_real(-2, 3)), 'w': w, 'phi': draw(phase)}
        if lossy:
            a['R'] = draw(R)
        return a
    if kind == 'dc_current_source':
        a = {'I': draw(gen.signed_real(-3, 2))}
        if lossy:
            a['G'] = draw(G)
        return a
    if kind == 'ac_current_source':
        a = {'I': draw(gen.signed_real(-3, 2)), 'w': w, 'phi': draw(phase)}
        if lossy:
            a['G'] = draw(G)
        return a
    if kind == 'complex_current_source':
        a = {'I': draw(gen.complex_val(-3, 2))}
        if lossy:
            a['Y'] = draw(gen.passive_complex(-4, 2))
        return a
    if kind == 'periodic_current_source':
        a = {'wavetype': draw(st.sampled_from(WAVES)), 'I': draw(gen.signed_real(-3, 2)), 'w': w, 'phi': draw(phase)}
        if lossy:
            a['G'] = draw(G)
        return a
    raise ValueError(kind)


PASSIVE = ['resistor', 'resistor', 'conductance', 'impedance', 'admittance', 'capacitor', 'inductance', 'lamp', 'resistive_load']


@st.composite
def circuit(draw, nmin=2, nmax=6, max_branches=10, source_kinds_v=('dc_voltage_source', 'ac_voltage_source'),
            source_kinds_i=('dc_current_source', 'ac_current_source'), w_pool=None, lossy_prob=3, passive=PASSIVE,
            min_sources=1, ground_mode=None, forced_lossy=True):
    """connected circuit: tree edges are passive elements or voltage sources, extra edges passive or current sources"""
    n, edges = draw(gen.topology(nmin, nmax, max_branches))
    names = draw(gen.labels(n))
    ids = draw(gen.labels(len(edges) + 1))
    comps = []
    nsrc = 0
    for (a, b, on_tree), cid in zip(edges, ids):
        roll = draw(st.integers(0, 9))
        if roll < 3:
            kind = draw(st.sampled_from(source_kinds_v if on_tree else source_kinds_i))
            nsrc += 1
        elif roll == 3 and not on_tree:
            kind = draw(st.sampled_from(source_kinds_v + source_kinds_i))
            nsrc += 1
        else:
            kind = draw(st.sampled_from(passive))
        lossy = kind in SOURCE_KINDS and lossy_prob and draw(st.integers(0, lossy_prob)) == 0
        comps.append({'kind': kind, 'id': cid, 'nodes': [names[a], names[b]], 'args': draw(component_args(kind, w_pool, lossy))})
    if nsrc < min_sources:
        for c in comps:
            if c['kind'] in passive and nsrc < min_sources:
                kind = draw(st.sampled_from(source_kinds_v + source_kinds_i))
                c['kind'], c['args'] = kind, draw(component_args(kind, w_pool, forced_lossy))   # lossy keeps it well posed anywhere
                nsrc += 1
    gm = ground_mode if ground_mode is not None else draw(st.integers(0, 2))
    if gm > 0:
        g = {'kind': 'ground', 'id': ids[-1], 'nodes': [names[draw(st.integers(0, n - 1))]], 'args': {}}
        comps.insert(draw(st.integers(0, len(comps))), g)
    if draw(st.integers(0, 11)) == 0:
        # hand-written descriptions carry Python ints (R=10, V=5, w=50, L=1): every scalar that is integral anyway,
        # and a share of the others, rounded to an int
        for c in comps:
            for key, v in list(c['args'].items()):
                if isinstance(v, float) and key in ('R', 'G', 'V', 'I', 'L', 'C', 'P', 'V_ref', 'w') and abs(v) >= 1 and (v == int(v) or draw(st.booleans())):
                    c['args'][key] = int(round(v))
    return {'components': comps}
