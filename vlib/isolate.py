"""Isolation server (DESIGN.md 3.6): a helper process that has imported the library but never executed any library
operation forks one child per request; the child performs exactly one operation on freshly rebuilt objects and exits.
Every "in isolation" result therefore comes from a process in which no other library call has ever run."""
from __future__ import annotations
import os, pickle, struct, sys, traceback

_server = None


def _send(fd, obj):
    data = pickle.dumps(obj)
    os.write(fd, struct.pack('<I', len(data)))
    off = 0
    while off < len(data):
        off += os.write(fd, data[off:off + 65536])


def _recv(fd):
    hdr = b''
    while len(hdr) < 4:
        chunk = os.read(fd, 4 - len(hdr))
        if not chunk:
            raise EOFError
        hdr += chunk
    n = struct.unpack('<I', hdr)[0]
    buf = b''
    while len(buf) < n:
        chunk = os.read(fd, n - len(buf))
        if not chunk:
            raise EOFError
        buf += chunk
    return pickle.loads(buf)


class Server:
    def __init__(self, handler_module: str, handler_name: str):
        """handler(request) -> plain result; imported inside the server before any request"""
        c2s_r, c2s_w = os.pipe()
        s2c_r, s2c_w = os.pipe()
        pid = os.fork()
        if pid == 0:
            # ---- server process: only forks, never runs library operations itself
            os.close(c2s_w); os.close(s2c_r)
            try:
                import importlib
                mod = importlib.import_module(handler_module)
                handler = getattr(mod, handler_name)
                getattr(mod, 'preload', lambda: None)()      # import (not execute) everything a request may need
                while True:
                    try:
                        req = _recv(c2s_r)
                    except EOFError:
                        break
                    rr, rw = os.pipe()
                    child = os.fork()
                    if child == 0:
                        os.close(rr)
                        try:
                            res = ('ok', handler(req))
                        except BaseException as e:  # noqa: BLE001 - reported to the client, which decides
                            res = ('harness-error', f'{type(e).__name__}: {e}\n{traceback.format_exc()[-800:]}')
                        try:
                            _send(rw, res)
                        finally:
                            os._exit(0)
                    os.close(rw)
                    try:
                        res = _recv(rr)
                    except EOFError:
                        res = ('harness-error', 'isolated child died without an answer')
                    os.close(rr)
                    os.waitpid(child, 0)
                    _send(s2c_w, res)
            finally:
                os._exit(0)
        os.close(c2s_r); os.close(s2c_w)
        self.pid, self.w, self.r = pid, c2s_w, s2c_r

    def call(self, req):
        _send(self.w, req)
        return _recv(self.r)

    def close(self):
        try:
            os.close(self.w); os.close(self.r)
            os.waitpid(self.pid, 0)
        except OSError:
            pass


def server(handler_module: str, handler_name: str) -> Server:
    global _server
    if _server is None or _server[0] != os.getpid():
        _server = (os.getpid(), Server(handler_module, handler_name))
    return _server[1]
