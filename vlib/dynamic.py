"""Dynamic (RLC + ideal source) circuits: generator, exact domain test, exact state-space reference, exact discrete response."""
from __future__ import annotations
from fractions import Fraction as F
from hypothesis import strategies as st
from . import gen, circuits as cc, refsolve as rs
from .exact import GQ, ZERO, ONE


def parts(spec):
    comps = [c for c in spec['components'] if c['kind'] != 'ground']
    caps = [c for c in comps if c['kind'] == 'capacitor']
    inds = [c for c in comps if c['kind'] == 'inductance']
    vsrc = [c for c in comps if c['kind'] == 'dc_voltage_source']
    isrc = [c for c in comps if c['kind'] == 'dc_current_source']
    return comps, caps, inds, vsrc, isrc


def _branch(c, kind, p):
    return {'id': c['id'], 'n1': c['nodes'][0], 'n2': c['nodes'][1], 'kind': kind, 'p': p}


def substituted(spec, cap_as, ind_as, values=None):
    """resistive network with capacitors / inductors replaced: 'open' | 'short' | 'vsrc' | 'isrc' (values from `values`)"""
    values = values or {}
    out = []
    for c in spec['components']:
        k = c['kind']
        if k == 'ground':
            continue
        v = values.get(c['id'], 0)
        if k == 'resistor':
            out.append(_branch(c, 'resistor', {'R': c['args']['R']}))
        elif k == 'capacitor':
            out.append(_branch(c, cap_as, {'V': v} if cap_as == 'vsrc' else {}))
        elif k == 'inductance':
            out.append(_branch(c, ind_as, {'I': v} if ind_as == 'isrc' else {}))
        elif k == 'dc_voltage_source':
            out.append(_branch(c, 'vsrc', {'V': v}))
        elif k == 'dc_current_source':
            out.append(_branch(c, 'isrc', {'I': v}))
        else:
            raise ValueError(k)
    return {'ref': cc.ground_of(spec), 'branches': out}


def in_domain(spec) -> bool:
    """characteristic polynomial has full degree nC+nL (no C/V loop, no L/I cut set) and no root at s=0:
    two exact determinants of the source-free tableau (s=0: C open, L short;  s=inf: C short, L open)"""
    z = substituted(spec, 'open', 'short')
    if rs.solve(z) is None:
        return False
    i = substituted(spec, 'short', 'open')
    return rs.solve(i) is not None


class Ref:
    """exact state-space realisation: states = capacitor voltages V12 then inductor currents I12 (listing order)"""

    def __init__(self, spec):
        comps, caps, inds, vsrc, isrc = parts(spec)
        self.spec = spec
        self.states = [c['id'] for c in caps] + [c['id'] for c in inds]
        self.inputs = [c['id'] for c in vsrc] + [c['id'] for c in isrc]
        self.nodes = rs.nodes_of(substituted(spec, 'vsrc', 'isrc'))
        self.ids = [c['id'] for c in comps]
        scale = {c['id']: F(c['args']['C']) for c in caps}
        scale.update({c['id']: F(c['args']['L']) for c in inds})
        self.W = [scale[s] for s in self.states]
        n, m = len(self.states), len(self.inputs)
        self.A = [[F(0)] * n for _ in range(n)]
        self.B = [[F(0)] * m for _ in range(n)]
        self.out = {}          # ('phi', node) / ('V', id) / ('I', id) -> (row over states, row over inputs)
        for key in [('phi', x) for x in self.nodes] + [('V', x) for x in self.ids] + [('I', x) for x in self.ids]:
            self.out[key] = ([F(0)] * n, [F(0)] * m)
        cap_ids = {c['id'] for c in caps}
        for col, name in enumerate(self.states + self.inputs):
            net = substituted(spec, 'vsrc', 'isrc', {name: 1})
            sol = rs.solve(net)
            if sol is None:
                raise ValueError('not in the domain')
            is_state = col < n
            j = col if is_state else col - n
            for b in net['branches']:
                V = sol['phi'][b['n1']] - sol['phi'][b['n2']]
                I = sol['I'][b['id']]
                assert not V.im and not I.im
                for key, val in ((('V', b['id']), V.re), (('I', b['id']), I.re)):
                    self.out[key][0 if is_state else 1][j] = val
                if b['id'] in self.states:
                    i = self.states.index(b['id'])
                    d = (I.re if b['id'] in cap_ids else V.re) / self.W[i]
                    (self.A if is_state else self.B)[i][j] = d
            for node in self.nodes:
                self.out[('phi', node)][0 if is_state else 1][j] = sol['phi'][node].re

    def float_matrices(self):
        import numpy as np
        A = np.array([[float(x) for x in r] for r in self.A], dtype=float).reshape(len(self.states), len(self.states))
        B = np.array([[float(x) for x in r] for r in self.B], dtype=float).reshape(len(self.states), len(self.inputs))
        return A, B

    def out_rows(self, key):
        import numpy as np
        c, d = self.out[key]
        return np.array([float(x) for x in c]), np.array([float(x) for x in d])


def phasor_network(spec, w: float, source: str):
    """the circuit at angular frequency w driven by `source` alone at unit amplitude (others deactivated)"""
    out = []
    for c in spec['components']:
        k = c['kind']
        if k == 'ground':
            continue
        if k == 'resistor':
            out.append(_branch(c, 'resistor', {'R': c['args']['R']}))
        elif k == 'capacitor':
            B = w * c['args']['C']
            out.append(_branch(c, 'open', {}) if B == 0 else _branch(c, 'admittance', {'Y': [0.0, B]}))
        elif k == 'inductance':
            X = w * c['args']['L']
            out.append(_branch(c, 'short', {}) if X == 0 else _branch(c, 'impedance', {'Z': [0.0, X]}))
        elif k == 'dc_voltage_source':
            out.append(_branch(c, 'vsrc', {'V': 1.0}) if c['id'] == source else _branch(c, 'short', {}))
        elif k == 'dc_current_source':
            out.append(_branch(c, 'isrc', {'I': 1.0}) if c['id'] == source else _branch(c, 'open', {}))
    return {'ref': cc.ground_of(spec), 'branches': out}


def foh_response(A, B, u, dt):
    """exact response of x' = Ax + Bu from rest to the piecewise-linear input u (samples x inputs) on a uniform grid:
    one matrix exponential of the Van Loan block matrix (first-order hold)"""
    import numpy as np
    from scipy.linalg import expm
    n, m = A.shape[0], B.shape[1]
    M = np.zeros((n + 2 * m, n + 2 * m))
    M[:n, :n] = A * dt
    M[:n, n:n + m] = B * dt
    M[n:n + m, n + m:] = np.eye(m)
    E = expm(M)
    Phi, G1, G2 = E[:n, :n], E[:n, n:n + m], E[:n, n + m:]
    x = np.zeros((u.shape[0], n))
    for k in range(u.shape[0] - 1):
        x[k + 1] = Phi @ x[k] + G1 @ u[k] + G2 @ (u[k + 1] - u[k])
    return x


# ---------------------------------------------------------------------------------------------------------------
# generator

@st.composite
def dynamic_circuit(draw, max_states=5, max_sources=3, labels_mode=None):
    """R / C / L / ideal dc sources on a connected skeleton; nominal source values non-zero"""
    n, edges = draw(gen.topology(2, 5, 9, min_extra=1))
    mode = labels_mode if labels_mode is not None else draw(st.integers(0, 2))
    ne = len(edges)
    if mode == 0:       # the naming scheme of the shipped examples
        names = [str(i) for i in range(n)]
        ids = None
    else:
        names = draw(gen.labels(n))
        ids = draw(gen.labels(ne + 1))
    comps, nstates, nsrc = [], 0, 0
    counters = {}
    for idx, (a, b, on_tree) in enumerate(edges):
        roll = draw(st.integers(0, 11))
        wild = draw(st.integers(0, 9)) == 0          # occasionally ignore the placement rules below
        # placement that keeps most draws non-degenerate: inductors and voltage sources in series positions (tree
        # edges), capacitors and current sources in shunt positions (extra edges)
        if roll <= 2:
            kind = 'resistor'
        elif roll <= 7 and nstates < max_states:
            kind = ('inductance' if on_tree else 'capacitor') if not wild else draw(st.sampled_from(['inductance', 'capacitor']))
            nstates += 1
        elif roll <= 10 and nsrc < max_sources:
            kind = ('dc_voltage_source' if on_tree else 'dc_current_source') if not wild else draw(st.sampled_from(['dc_voltage_source', 'dc_current_source']))
            nsrc += 1
        else:
            kind = 'resistor'
        args = {'resistor': lambda: {'R': draw(gen.pos_real(-1, 4))}, 'capacitor': lambda: {'C': draw(gen.pos_real(-7, -3))},
                'inductance': lambda: {'L': draw(gen.pos_real(-4, 0))}, 'dc_voltage_source': lambda: {'V': draw(gen.signed_real(-1, 2))},
                'dc_current_source': lambda: {'I': draw(gen.signed_real(-3, 1))}}[kind]()
        if ids is None:
            prefix = {'resistor': 'R', 'capacitor': 'C', 'inductance': 'L', 'dc_voltage_source': 'Vs', 'dc_current_source': 'Is'}[kind]
            counters[prefix] = counters.get(prefix, 0) + 1
            cid = f'{prefix}{counters[prefix]}'
        else:
            cid = ids[idx]
        comps.append({'kind': kind, 'id': cid, 'nodes': [names[a], names[b]], 'args': args})
    if nstates == 0:
        for c, (a, b, on_tree) in zip(comps, edges):
            if c['kind'] == 'resistor':
                c['kind'] = 'inductance' if on_tree else 'capacitor'
                c['args'] = {'L': draw(gen.pos_real(-4, 0))} if on_tree else {'C': draw(gen.pos_real(-7, -3))}
                if ids is None:
                    c['id'] = 'L9' if on_tree else 'C9'
                break
    if nsrc == 0:
        for c in comps:
            if c['kind'] == 'resistor':
                c['kind'], c['args'] = 'dc_voltage_source', {'V': draw(gen.signed_real(-1, 2))}
                if ids is None:
                    c['id'] = 'Vs9'
                break
    if draw(st.integers(0, 2)) > 0:
        gid = 'gnd' if ids is None else ids[-1]
        comps.insert(draw(st.integers(0, len(comps))), {'kind': 'ground', 'id': gid, 'nodes': [names[draw(st.integers(0, n - 1))]], 'args': {}})
    return {'components': comps}


@st.composite
def ladder_circuit(draw, max_sections=4):
    """source - [series L|R, shunt C|R] x m ladder: always connected, inductors and capacitors coupled through shared nodes;
    random orientation, listing order and labels (so that listing order and alphabetical order of the inductors differ)"""
    m = draw(st.integers(1, max_sections))
    names = draw(gen.labels(m + 2))
    g, nodes = names[0], names[1:]
    ids = draw(gen.labels(3 * m + 4))
    comps = []

    def add(kind, a, b, args):
        if draw(st.booleans()):
            a, b = b, a
        comps.append({'kind': kind, 'id': ids[len(comps)], 'nodes': [a, b], 'args': args})

    if draw(st.integers(0, 3)) > 0:
        add('dc_voltage_source', nodes[0], g, {'V': draw(gen.signed_real(-1, 2))})
    else:
        add('dc_current_source', g, nodes[0], {'I': draw(gen.signed_real(-3, 1))})
        add('resistor', nodes[0], g, {'R': draw(gen.pos_real(-1, 4))})
    for i in range(1, m + 1):
        if draw(st.integers(0, 4)) > 0:
            add('inductance', nodes[i - 1], nodes[i], {'L': draw(gen.pos_real(-4, 0))})
        else:
            add('resistor', nodes[i - 1], nodes[i], {'R': draw(gen.pos_real(-1, 4))})
        if draw(st.booleans()):
            add('capacitor', nodes[i], g, {'C': draw(gen.pos_real(-7, -3))})
            if draw(st.booleans()):
                add('resistor', nodes[i], g, {'R': draw(gen.pos_real(-1, 4))})
        else:
            add('resistor', nodes[i], g, {'R': draw(gen.pos_real(-1, 4))})
    comps = list(draw(st.permutations(comps)))
    if draw(st.booleans()):
        comps.insert(draw(st.integers(0, len(comps))), {'kind': 'ground', 'id': ids[-1], 'nodes': [g], 'args': {}})
    else:
        # implicit ground = first listed terminal: make it the ground node
        for k, c in enumerate(comps):
            if g in c['nodes']:
                c['nodes'] = [g, [x for x in c['nodes'] if x != g][0]] if c['nodes'][0] != g else c['nodes']
                if c['kind'] in ('dc_voltage_source', 'dc_current_source') and c['nodes'][0] == g:
                    pass
                comps.insert(0, comps.pop(k))
                break
    return {'components': comps}


def _unit_family(spec, kc, kl):
    # the same circuit in nF/pF and uH/nH: relative spread (hence conditioning) unchanged, absolute sizes far below 1e-8
    for c in spec['components']:
        if c['kind'] == 'capacitor':
            c['args']['C'] = float(f"{c['args']['C'] * kc:.6g}")
        elif c['kind'] == 'inductance':
            c['args']['L'] = float(f"{c['args']['L'] * kl:.6g}")
    return spec


@st.composite
def any_dynamic(draw, **kw):
    spec = draw(st.one_of(dynamic_circuit(**kw), ladder_circuit()))
    kc, kl = draw(st.sampled_from([(1.0, 1.0)] * 5 + [(1e-5, 1e-5), (1e-3, 1e-6), (1e-6, 1.0), (1.0, 1e-6), ('int', 'int')]))
    if kc == 'int':
        # normalised prototypes (1 Ohm, 1 H, 2 F): values that are Python ints, as written in hand-made descriptions
        for c in spec['components']:
            for key, pool in (('C', [1, 2, 3]), ('L', [1, 2, 5]), ('R', [1, 2, 10]), ('V', [1, -2, 5]), ('I', [1, -1, 2])):
                if key in c['args'] and draw(st.integers(0, 3)) > 0:
                    c['args'][key] = draw(st.sampled_from(pool))
        return spec
    return _unit_family(spec, kc, kl) if (kc, kl) != (1.0, 1.0) else spec
