"""Strict parser for the library's number renderings (DESIGN.md 3.7). Independent of the library: works on text only."""
from __future__ import annotations
import re
from decimal import Decimal, getcontext

getcontext().prec = 60

NUM = r'(?P<int>\d+)(?:\.(?P<frac>\d+))?(?:e(?P<exp>-?\d+))?'


class ParseError(Exception):
    pass


class Num:
    """a parsed real rendering: sign * mantissa * 10^exp  (mantissa as exact Decimal incl. its decimals)"""
    __slots__ = ('inf', 'neg', 'mant', 'exp', 'ndigits', 'nfrac', 'text')

    def __init__(self, inf, neg, mant, exp, ndigits, nfrac, text):
        self.inf, self.neg, self.mant, self.exp, self.ndigits, self.nfrac, self.text = inf, neg, mant, exp, ndigits, nfrac, text

    @property
    def value(self) -> Decimal:
        if self.inf:
            raise ParseError('infinite')
        v = self.mant.scaleb(self.exp)
        return -v if self.neg else v

    @property
    def half_unit(self) -> Decimal:
        """half a unit of the last displayed digit"""
        return Decimal(5).scaleb(self.exp - self.nfrac - 1)


def parse_real(text: str, unit: str = '', prefixes: dict | None = None, allow_sign=True) -> Num:
    """`[-]d+[.d+][e[-]d+][prefix]unit` or `[-]∞`; prefixes = {exponent: letter} table in force (None: no prefixes)"""
    s = text
    if s in ('∞', '-∞'):
        if s.startswith('-') and not allow_sign:
            raise ParseError(f'unexpected sign in {text!r}')
        return Num(True, s.startswith('-'), None, 0, 0, 0, text)
    if unit:
        if not s.endswith(unit):
            raise ParseError(f'unit {unit!r} missing in {text!r}')
        s = s[:len(s) - len(unit)]
    neg = False
    if s.startswith('-'):
        if not allow_sign:
            raise ParseError(f'unexpected sign in {text!r}')
        neg, s = True, s[1:]
    if s == '∞':
        return Num(True, neg, None, 0, 0, 0, text)
    pexp = 0
    if prefixes:
        inv = {v: k for k, v in prefixes.items()}
        if s and s[-1] in inv:
            pexp = inv[s[-1]]
            s = s[:-1]
    m = re.fullmatch(NUM, s)
    if not m:
        raise ParseError(f'cannot parse {text!r}')
    ip, fp, ex = m.group('int'), m.group('frac') or '', m.group('exp')
    if len(ip) > 1 and ip.startswith('0'):
        raise ParseError(f'leading zero in {text!r}')
    mant = Decimal(ip + ('.' + fp if fp else ''))
    return Num(False, neg, mant, (int(ex) if ex else 0) + pexp, len(ip) + len(fp), len(fp), text)


def decade(v: Decimal) -> int:
    """floor(log10 |v|) exactly"""
    return v.copy_abs().adjusted()


def accuracy_ok(parsed: Decimal, value, p: int) -> bool:
    """|parsed - value| <= half a unit of the p-th significant digit of value (exact decimal arithmetic)"""
    v = Decimal(value)
    if v == 0:
        return parsed == 0
    half = Decimal(5).scaleb(decade(v) - p)
    # slack 1e-9 of the half unit: a value within a few ulp of a rounding tie may go either way (the library scales
    # in binary floating point before rounding); this is far below anything a reader of p digits can see
    return abs(parsed - v) <= half * (1 + Decimal('1e-9'))


def split_complex(text: str):
    """Cartesian rendering `[-]re [+-] j im` (compact or spaced) -> (re_text|None, im_sign, im_text|None)"""
    s = text.replace(' ', '')
    m = re.fullmatch(r'(?P<re>-?[^j+]*?[^j+e-][^j+-]*|-?∞)?(?:(?P<sg>[+-])?j(?P<im>.+))?', s)
    if not m:
        raise ParseError(f'cannot split {text!r}')
    return m.group('re'), m.group('sg'), m.group('im')
