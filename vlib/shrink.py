"""Structural shrinker for plain-data cases: greedy deletion of list elements and simplification of numbers, keeping a
candidate only if the same failure bucket is still hit. Works from the failing case itself (no regeneration)."""
from __future__ import annotations
import copy, time


def _lists(obj, path=()):
    if isinstance(obj, dict):
        for k, v in obj.items():
            yield from _lists(v, path + (k,))
    elif isinstance(obj, list):
        if len(obj) >= 1 and any(isinstance(x, (dict, list)) for x in obj) or len(obj) > 2:
            yield path, obj
        for i, v in enumerate(obj):
            yield from _lists(v, path + (i,))


def _numbers(obj, path=()):
    if isinstance(obj, dict):
        for k, v in obj.items():
            yield from _numbers(v, path + (k,))
    elif isinstance(obj, list):
        for i, v in enumerate(obj):
            yield from _numbers(v, path + (i,))
    elif isinstance(obj, float) and not isinstance(obj, bool):
        yield path, obj


def _get(obj, path):
    for p in path:
        obj = obj[p]
    return obj


def _set(obj, path, value):
    for p in path[:-1]:
        obj = obj[p]
    obj[path[-1]] = value


def shrink(case, still_fails, max_calls=200, max_seconds=30.0):
    best = copy.deepcopy(case)
    t0, calls = time.time(), 0

    def ok(c):
        nonlocal calls
        calls += 1
        try:
            return still_fails(c)
        except Exception:   # a malformed candidate is simply not a reproduction
            return False

    def budget():
        return calls < max_calls and time.time() - t0 < max_seconds

    changed = True
    while changed and budget():
        changed = False
        for path, lst in list(_lists(best)):
            try:
                cur = _get(best, path)
            except (KeyError, IndexError, TypeError):
                continue
            i = len(cur) - 1
            while i >= 0 and budget():
                try:
                    cand = copy.deepcopy(best)
                    del _get(cand, path)[i]
                except (KeyError, IndexError, TypeError):
                    break
                if ok(cand):
                    best, changed = cand, True
                i -= 1
                try:
                    cur = _get(best, path)
                except (KeyError, IndexError, TypeError):
                    break
                if not isinstance(cur, list):
                    break
                i = min(i, len(cur) - 1)
    for path, val in list(_numbers(best)):
        if not budget():
            break
        for simple in (1.0, float(f'{val:.1g}')):
            if simple == val:
                continue
            cand = copy.deepcopy(best)
            try:
                _set(cand, path, simple)
            except (KeyError, IndexError, TypeError):
                break
            if ok(cand):
                best = cand
                break
    return best
