"""Generic runner: sharded Hypothesis generation in collect mode, bucketed failures, shrink, replay, evidence.

A check module (checks/cXX.py) exposes
    PROPERTY, LEVEL, RULE, ASSUMPTIONS, TESTS (list[Test]) and optionally KNOWN
Each Test has a plain function  check(case: dict, r: R) -> None  over JSON-able case data.
"""
from __future__ import annotations
import contextlib, hashlib, importlib, json, os, sys, time, traceback, collections
from dataclasses import dataclass, field
from typing import Any, Callable, Iterable, Optional

from . import env

NSHARDS = int(os.environ.get('VERIF_SHARDS', '16'))


def canon(obj) -> str:
    return json.dumps(obj, sort_keys=True, separators=(',', ':'), default=_default)


def _default(o):
    if isinstance(o, complex):
        return {'__complex__': [o.real, o.imag]}
    if isinstance(o, (set, frozenset)):
        return sorted(o)
    if isinstance(o, tuple):
        return list(o)
    try:
        import numpy as np
        if isinstance(o, np.generic):
            return o.item()
        if isinstance(o, np.ndarray):
            return o.tolist()
    except Exception:
        pass
    return repr(o)


def chash(obj) -> str:
    return hashlib.sha1(canon(obj).encode()).hexdigest()[:16]


def lib_frame(tb) -> str:
    """innermost frame that lies inside the CircuitCalculator package (file:function)"""
    best = None
    for fs in traceback.extract_tb(tb):
        if '/CircuitCalculator/' in fs.filename:
            best = f"{fs.filename.split('/CircuitCalculator/')[-1]}:{fs.name}"
    if best is None:
        fs = traceback.extract_tb(tb)[-1]
        best = f'{os.path.basename(fs.filename)}:{fs.name}'
    return best


class R:
    """recorder for the verdicts of one case"""
    __slots__ = ('failures', 'classes', 'rejected', 'nontrivial', 'info')

    def __init__(self):
        self.failures: list[tuple[str, str]] = []
        self.classes: set[str] = set()
        self.rejected: Optional[str] = None
        self.nontrivial = False
        self.info = {}

    def fail(self, sub: str, detail: Any = ''):
        self.failures.append((sub, detail if isinstance(detail, str) else canon(detail)))

    def cls(self, *names: str):
        self.classes.update(names)

    def reject(self, reason: str):
        self.rejected = reason

    def nt(self, flag: bool = True):
        self.nontrivial = self.nontrivial or bool(flag)

    @contextlib.contextmanager
    def lib(self, sub: str):
        """run library code; an exception escaping the library is a failure of `sub`, bucketed by type and frame"""
        try:
            yield
        except env.HarnessError:
            raise
        except Exception as e:  # noqa: BLE001 - deliberate: library exceptions are verdicts here
            self.fail(f'{sub}:raised:{type(e).__name__}@{lib_frame(e.__traceback__)}', f'{type(e).__name__}: {str(e)[:200]}')

    def expect_raises(self, sub: str, fn: Callable, *a, **k):
        """contract 'rejected with an exception' (C19): not raising is the failure"""
        try:
            v = fn(*a, **k)
        except Exception:  # noqa: BLE001
            return True
        self.fail(sub, f'accepted, returned {str(v)[:120]}')
        return False


@dataclass
class Test:
    name: str
    check: Callable[[dict, R], None]
    strategy: Optional[Callable[[], Any]] = None
    enumerate: Optional[Callable[[str], Iterable[dict]]] = None
    quick: int = 0
    thorough: int = 0
    exhaustive: bool = False       # the enumeration covers a finite domain completely


class Stats:
    def __init__(self):
        self.generated = 0
        self.evaluations = 0
        self.rejected = collections.Counter()
        self.classes = collections.Counter()
        self.nontrivial: set[str] = set()
        self.samples: list = []
        self.buckets: dict[str, dict] = {}
        self.known: dict[str, dict] = {}

    def record(self, test: Test, case, r: R, known_preds):
        self.generated += 1
        if r.rejected is not None and not r.failures:
            self.rejected[r.rejected] += 1
            return
        self.evaluations += 1
        for c in r.classes:
            self.classes[c] += 1
        if r.nontrivial:
            h = chash(case)
            if h not in self.nontrivial:
                self.nontrivial.add(h)
                if len(self.samples) < 2:
                    self.samples.append({'test': test.name, 'case': case})
        for sub, detail in r.failures:
            fid = match_known(known_preds, case, sub, detail)
            if fid is not None:
                k = self.known.setdefault(fid, {'count': 0, 'example': None})
                k['count'] += 1
                if k['example'] is None:
                    k['example'] = {'test': test.name, 'sub': sub, 'detail': detail}
                continue
            key = f'{test.name}|{sub}'
            b = self.buckets.get(key)
            if b is None:
                self.buckets[key] = {'test': test.name, 'sub': sub, 'detail': detail, 'count': 1, 'case': case}
            else:
                b['count'] += 1
                if len(canon(case)) < len(canon(b['case'])):
                    b['case'] = case
                    b['detail'] = detail

    def merge(self, o: 'Stats'):
        self.generated += o.generated
        self.evaluations += o.evaluations
        self.rejected.update(o.rejected)
        self.classes.update(o.classes)
        self.nontrivial |= o.nontrivial
        self.samples.extend(o.samples)
        for k, b in o.buckets.items():
            m = self.buckets.get(k)
            if m is None:
                self.buckets[k] = b
            else:
                m['count'] += b['count']
                if len(canon(b['case'])) < len(canon(m['case'])):
                    m['case'], m['detail'] = b['case'], b['detail']
        for k, v in o.known.items():
            m = self.known.setdefault(k, {'count': 0, 'example': None})
            m['count'] += v['count']
            m['example'] = m['example'] or v['example']


def match_known(known_preds, case, sub, detail):
    for fid, pred in known_preds.items():
        try:
            if pred(case, sub, detail):
                return fid
        except Exception:  # a predicate must never turn into a verdict
            continue
    return None


def load_known(module) -> tuple[dict, dict]:
    """(active predicates {finding id: predicate}, descriptions) for the property of `module`.
    Only findings listed as 'open' in known_findings.json are active; the file is never written here."""
    path = os.path.join(env.VERIF, 'known_findings.json')
    preds, desc = {}, {}
    try:
        with open(path) as f:
            data = json.load(f)
    except FileNotFoundError:
        return preds, desc
    table = getattr(module, 'KNOWN', {})
    for e in data.get('findings', []):
        if e.get('property') != module.PROPERTY or e.get('status') != 'open':
            continue
        fid = e['id']
        if fid in table:
            preds[fid] = table[fid]
            desc[fid] = e.get('what', '')
    return preds, desc


# ----------------------------------------------------------------------------------------------------------------
# worker

def _run_test_shard(modname: str, test_index: int, shard: int, n: int, tier: str, base_seed: int):
    import warnings
    warnings.filterwarnings('ignore')
    env.setup()
    module = importlib.import_module(modname)
    test: Test = module.TESTS[test_index]
    known_preds, _ = load_known(module)
    stats = Stats()
    t0 = time.time()
    if test.enumerate is not None:
        for i, case in enumerate(test.enumerate(tier)):
            if i % NSHARDS != shard:
                continue
            r = R()
            test.check(case, r)
            stats.record(test, case, r, known_preds)
    if test.strategy is not None and n > 0:
        import hypothesis
        from hypothesis import given, settings, HealthCheck, Phase
        strat = test.strategy()

        def body(case):
            r = R()
            test.check(case, r)
            stats.record(test, case, r, known_preds)

        seeded = hypothesis.seed(base_seed * 1000 + shard * 37 + test_index)(
            settings(max_examples=n, database=None, deadline=None, derandomize=False,
                     suppress_health_check=list(HealthCheck), phases=[Phase.generate],
                     report_multiple_bugs=False)(given(strat)(body)))
        seeded()
        # shrink each new bucket of this shard (bounded)
    # shrink each new bucket of this shard from its own failing case (bounded by calls and time: shrinking only
    # makes the replay smaller, it never changes the verdict)
    from . import shrink as _sh
    for key in list(stats.buckets)[:2]:
        b = stats.buckets[key]

        def still(c, sub=b['sub']):
            rr = R()
            test.check(c, rr)
            return any(s_ == sub and match_known(known_preds, c, s_, d_) is None for s_, d_ in rr.failures)

        try:
            small = _sh.shrink(b['case'], still, 150 if tier == 'quick' else 1500, 20.0 if tier == 'quick' else 180.0)
        except Exception:   # shrinking is best effort: the unshrunk case is still a valid replay
            small = b['case']
        if len(canon(small)) < len(canon(b['case'])):
            rr = R()
            test.check(small, rr)
            det = [d_ for s_, d_ in rr.failures if s_ == b['sub']]
            if det:
                b['case'], b['detail'] = small, det[0]
    return test.name, shard, stats, time.time() - t0


def _shrink(test, strat, sub, known_preds, seed, n, max_calls):
    import hypothesis
    from hypothesis import given, settings, HealthCheck, Phase
    best = [None]
    calls = [0]
    found = [False]

    class _Hit(Exception):
        pass

    def body(case):
        if found[0]:
            calls[0] += 1
            if calls[0] > max_calls:
                return
        r = R()
        test.check(case, r)
        for s, d in r.failures:
            if s == sub and match_known(known_preds, case, s, d) is None:
                found[0] = True
                if best[0] is None or len(canon(case)) <= len(canon(best[0][0])):
                    best[0] = (case, d)
                raise _Hit()

    f = hypothesis.seed(seed)(settings(max_examples=n, database=None, deadline=None, derandomize=False,
                                       suppress_health_check=list(HealthCheck), phases=[Phase.generate, Phase.shrink],
                                       report_multiple_bugs=False)(given(strat)(body)))
    try:
        with open(os.devnull, 'w') as dn, contextlib.redirect_stdout(dn), contextlib.redirect_stderr(dn):
            f()
    except BaseException:  # _Hit, Flaky, ... - the recorded best case is what counts
        pass
    return best[0]


# ----------------------------------------------------------------------------------------------------------------
# parent

def run_property(modname: str, tier: str) -> int:
    import multiprocessing as mp
    from concurrent.futures import ProcessPoolExecutor, as_completed
    t0 = time.time()
    env.setup()
    module = importlib.import_module(modname)
    prop = module.PROPERTY
    seed = env.seed()
    _, known_desc = load_known(module)
    tests: list[Test] = module.TESTS
    per_test = {t.name: Stats() for t in tests}
    jobs = []
    ctx = mp.get_context('fork')
    with ProcessPoolExecutor(max_workers=NSHARDS, mp_context=ctx) as ex:
        for ti, t in enumerate(tests):
            total = t.quick if tier == 'quick' else t.thorough
            for k in range(NSHARDS):
                n = total // NSHARDS + (1 if k < total % NSHARDS else 0)
                if n == 0 and t.enumerate is None:
                    continue
                jobs.append(ex.submit(_run_test_shard, modname, ti, k, n, tier, seed))
        budget = float(os.environ.get('VERIF_BUDGET_S', '1500' if tier == 'quick' else '14000'))
        try:
            for fut in as_completed(jobs, timeout=budget):
                name, shard, stats, dt = fut.result()
                per_test[name].merge(stats)
        except TimeoutError:
            print(f'INCONCLUSIVE property={prop}: wall-clock budget of {budget}s exhausted', flush=True)
            for j in jobs:
                j.cancel()
            os._exit(2)
    total = Stats()
    for s in per_test.values():
        total.merge(s)
    wall = time.time() - t0
    # ---- report
    violations = []
    rdir = os.environ.get('VERIF_REPLAY_DIR', os.path.join(env.VERIF, 'replays'))
    os.makedirs(os.path.join(rdir, prop), exist_ok=True)
    for key, b in sorted(total.buckets.items()):
        rp = {'property': prop, 'module': modname, 'test': b['test'], 'sub': b['sub'], 'detail': b['detail'], 'case': b['case']}
        path = os.path.join('replays', prop, f'{chash([b["test"], b["sub"], b["case"]])}.json')
        with open(os.path.join(rdir, prop, os.path.basename(path)), 'w') as f:
            json.dump(rp, f, indent=1, sort_keys=True, default=_default)
        violations.append((b, path))
    for fid, k in sorted(total.known.items()):
        print(f'KNOWN-FINDING: property={prop} {fid}: {known_desc.get(fid, "")} (hit {k["count"]}x, e.g. {k["example"]["sub"]})')
    for b, path in violations:
        print(f'VIOLATION property={prop} replay={path}')
        print(f'   test={b["test"]} sub={b["sub"]} count={b["count"]} detail={b["detail"][:300]}')
    samples = total.samples[:5] or []
    if not samples:
        samples = [{'note': 'no non-trivial case was generated'}]
    evidence = {
        'property_id': prop, 'tier': tier, 'seed': seed, 'level': module.LEVEL,
        'coverage': {
            'evaluations': total.evaluations,
            'distinct_nontrivial': len(total.nontrivial),
            'rule': module.RULE,
            'samples': samples,
            'generated': total.generated,
            'rejected': dict(total.rejected),
            'classes': dict(sorted(total.classes.items())),
            'per_test': {n: {'generated': s.generated, 'evaluations': s.evaluations, 'nontrivial': len(s.nontrivial),
                             'rejected': dict(s.rejected)} for n, s in per_test.items()},
            'known_finding_hits': {k: v['count'] for k, v in total.known.items()},
            'shards': NSHARDS,
            'exhaustive': bool(any(t.exhaustive for t in tests)),
            'exhaustive_tests': [t.name for t in tests if t.exhaustive],
        },
        'assumptions': list(getattr(module, 'ASSUMPTIONS', [])),
        'wall_s': round(wall, 2),
        'violations': len(violations),
    }
    os.makedirs(os.environ.get('VERIF_EVIDENCE_DIR', os.path.join(env.VERIF, 'evidence')), exist_ok=True)
    with open(os.path.join(env.VERIF, 'evidence', f'{prop}.json'), 'w') as f:
        json.dump(evidence, f, indent=1, sort_keys=True, default=_default)
    print(f'{prop} {tier} seed={seed}: generated={total.generated} evaluated={total.evaluations} '
          f'nontrivial={len(total.nontrivial)} rejected={sum(total.rejected.values())} violations={len(violations)} '
          f'known={sum(v["count"] for v in total.known.values())} wall={wall:.1f}s')
    if os.environ.get('VERIF_VERBOSE'):
        print(' classes:', dict(sorted(total.classes.items())))
        print(' rejected:', dict(total.rejected))
    if violations:
        return 1
    if total.evaluations == 0 or len(total.nontrivial) < 2:
        print(f'INCONCLUSIVE property={prop}: generator produced no (non-trivial) evaluations')
        return 2
    return 0


def run_replay(path: str) -> int:
    env.setup()
    with open(path) as f:
        rp = json.load(f)
    module = importlib.import_module(rp['module'])
    known_preds, known_desc = load_known(module)
    test = next(t for t in module.TESTS if t.name == rp['test'])
    r = R()
    test.check(rp['case'], r)
    bad = 0
    for sub, detail in r.failures:
        fid = match_known(known_preds, rp['case'], sub, detail)
        if fid:
            print(f'KNOWN-FINDING: property={module.PROPERTY} {fid}: {known_desc.get(fid, "")}')
            continue
        bad += 1
        print(f'  failing: {sub}: {detail[:400]}')
    if r.rejected and not r.failures:
        print(f'  case rejected by the domain test: {r.rejected}')
    if bad:
        print(f'VIOLATION property={module.PROPERTY} replay={path}')
        return 1
    print(f'replay {path}: property {module.PROPERTY} holds on this case')
    return 0
