"""Import-path discipline: every check must exercise /repo/src (or $VERIF_SRC), never the wheel in /venv."""
import os, sys

SRC = os.environ.get('VERIF_SRC', '/repo/src')
VERIF = os.path.dirname(os.path.dirname(os.path.abspath(__file__)))


class HarnessError(Exception):
    """A problem of the verification machinery itself: exit 2, never a verdict."""


def setup():
    if SRC not in sys.path:
        sys.path.insert(0, SRC)
    os.environ.setdefault('MPLBACKEND', 'Agg')
    import CircuitCalculator
    f = os.path.realpath(CircuitCalculator.__file__)
    if not f.startswith(os.path.realpath(SRC)):
        raise HarnessError(f'CircuitCalculator imported from {f}, expected below {SRC}')
    return CircuitCalculator


def seed():
    try:
        return int(os.environ.get('VERIF_SEED', '1'))
    except ValueError:
        return 1
