"""Independent reference model for linear networks: sparse tableau over Q(i).

Network spec (plain JSON data):
  {"ref": <node>, "branches": [{"id","n1","n2","kind","p":{...}}, ...]}
kinds / parameters (numbers are floats, complex numbers [re, im]):
  resistor{R} conductor{G} impedance{Z} admittance{Y} load{P,Q,V_ref|I_ref}
  vsrc{V} isrc{I} linv{V,Z} lini{I,Y} open{} short{}
Branch law in the form  a*V12 + b*I12 = c  with V12 = phi(n1)-phi(n2) and I12 the current n1 -> n2 through the
branch (DESIGN.md section 0.1).  Nothing here imports the library.
"""
from __future__ import annotations
from fractions import Fraction as F
from .exact import GQ, ZERO, ONE, solve as gq_solve

PASSIVE_KINDS = ('resistor', 'conductor', 'impedance', 'admittance', 'load')


def gq(v) -> GQ:
    if isinstance(v, (list, tuple)):
        return GQ(F(v[0]), F(v[1]))
    if isinstance(v, complex):
        return GQ(F(v.real), F(v.imag))
    return GQ(F(v), F(0))


def cx(v):
    """the value as it is handed to the library: float stays float, [re, im] becomes complex"""
    if isinstance(v, (list, tuple)):
        return complex(v[0], v[1])
    return v


def law(b) -> tuple[GQ, GQ, GQ, str]:
    """(a, b, c, cls) with cls in passive | idealV | idealI | linear  (reporting class of section 0.1)"""
    k, p = b['kind'], b.get('p', {})
    if k == 'resistor':
        R = gq(p['R'])
        return (ONE, -R, ZERO, 'passive') if R else (ONE, ZERO, ZERO, 'idealV')
    if k == 'impedance':
        Z = gq(p['Z'])
        return (ONE, -Z, ZERO, 'passive') if Z else (ONE, ZERO, ZERO, 'idealV')
    if k == 'conductor':
        G = gq(p['G'])
        return (G, -ONE, ZERO, 'passive') if G else (ZERO, ONE, ZERO, 'idealI')
    if k == 'admittance':
        Y = gq(p['Y'])
        return (Y, -ONE, ZERO, 'passive') if Y else (ZERO, ONE, ZERO, 'idealI')
    if k == 'load':
        S = GQ(F(p['P']), F(p.get('Q', 0)))
        if 'V_ref' in p:
            Y = S / (gq(p['V_ref']) * gq(p['V_ref']))
            return (Y, -ONE, ZERO, 'passive') if Y else (ZERO, ONE, ZERO, 'idealI')
        Z = S / (gq(p['I_ref']) * gq(p['I_ref']))
        return (ONE, -Z, ZERO, 'passive') if Z else (ONE, ZERO, ZERO, 'idealV')
    if k == 'vsrc':
        return (ONE, ZERO, gq(p['V']), 'idealV')
    if k == 'isrc':
        return (ZERO, ONE, gq(p['I']), 'idealI')
    if k == 'linv':
        V, Z = gq(p['V']), gq(p['Z'])
        if not Z:
            return (ONE, ZERO, V, 'idealV')
        return (-ONE, Z, V, 'linear' if V else 'passive')
    if k == 'lini':
        I, Y = gq(p['I']), gq(p['Y'])
        if not Y:
            return (ZERO, ONE, I, 'idealI')
        return (-Y, ONE, I, 'linear' if I else 'passive')
    if k == 'open':
        return (ZERO, ONE, ZERO, 'idealI')
    if k == 'short':
        return (ONE, ZERO, ZERO, 'idealV')
    raise ValueError(k)


def admittance_of(b) -> GQ | None:
    """branch admittance (None = infinite, i.e. a zero-impedance branch), source part ignored"""
    a, bb, _, _ = law(b)
    if not bb:          # a*V = c : ideal voltage source / short
        return None
    # a*V + bb*I = c  ->  I = (c - a V)/bb ; dI/dV = -a/bb
    return -(a / bb)


def nodes_of(net) -> list[str]:
    s = []
    seen = set()
    for b in net['branches']:
        for n in (b['n1'], b['n2']):
            if n not in seen:
                seen.add(n)
                s.append(n)
    if net['ref'] not in seen:
        s.append(net['ref'])
    return s


def tableau(net, inject=None, laws=None):
    nodes = nodes_of(net)
    ni = {n: i for i, n in enumerate(nodes)}
    br = net['branches']
    N, B = len(nodes), len(br)
    n = N + B
    A = [[ZERO] * n for _ in range(n)]
    rhs = [ZERO] * n
    row = 0
    for node in nodes:
        if node == net['ref']:
            A[row][ni[node]] = ONE
            row += 1
            continue
        for j, b in enumerate(br):
            if b['n1'] == node:
                A[row][N + j] = A[row][N + j] + ONE
            if b['n2'] == node:
                A[row][N + j] = A[row][N + j] - ONE
        if inject and node in inject:
            rhs[row] = gq(inject[node]) if not isinstance(inject[node], GQ) else inject[node]
        row += 1
    for j, b in enumerate(br):
        a, bb, c, _ = laws[j] if laws else law(b)
        A[row][ni[b['n1']]] = A[row][ni[b['n1']]] + a
        A[row][ni[b['n2']]] = A[row][ni[b['n2']]] - a
        A[row][N + j] = bb
        rhs[row] = c
        row += 1
    return nodes, A, rhs


def solve(net, inject=None, laws=None):
    """exact solution {'phi': {node: GQ}, 'I': {id: GQ}} or None when the network is not well posed"""
    nodes, A, rhs = tableau(net, inject, laws)
    x = gq_solve(A, rhs)
    if x is None:
        return None
    N = len(nodes)
    return {'phi': {n: x[i] for i, n in enumerate(nodes)},
            'I': {b['id']: x[N + j] for j, b in enumerate(net['branches'])}}


def cond_estimate(net, inject=None, laws=None) -> float:
    """2-norm condition number of the row/column equilibrated float tableau"""
    import numpy as np
    nodes, A, rhs = tableau(net, inject, laws)
    M = np.array([[complex(v) for v in row] for row in A])
    for _ in range(3):
        rs = np.abs(M).max(axis=1)
        rs[rs == 0] = 1
        M = M / rs[:, None]
        cs = np.abs(M).max(axis=0)
        cs[cs == 0] = 1
        M = M / cs[None, :]
    try:
        return float(np.linalg.cond(M))
    except Exception:
        return float('inf')


def nodal_cond(net, pseudo=False) -> float:
    """condition number of an (unscaled) modified-nodal float matrix of the network: a float nodal solver cannot be
    more accurate than eps*this, whatever its details - used only to decide which cases are judged"""
    import numpy as np
    nodes = [n for n in nodes_of(net) if n != net['ref']]
    ni = {n: i for i, n in enumerate(nodes)}
    vs = [b for b in net['branches'] if admittance_of(b) is None]
    N = len(nodes)
    M = np.zeros((N + len(vs), N + len(vs)), dtype=complex)
    for b in net['branches']:
        y = admittance_of(b)
        if y is None:
            continue
        y = complex(y)
        for (p, q) in ((b['n1'], b['n1']), (b['n2'], b['n2'])):
            if p in ni:
                M[ni[p], ni[q]] += y
        if b['n1'] in ni and b['n2'] in ni:
            M[ni[b['n1']], ni[b['n2']]] -= y
            M[ni[b['n2']], ni[b['n1']]] -= y
    for k, b in enumerate(vs):
        if b['n1'] in ni:
            M[ni[b['n1']], N + k] = 1; M[N + k, ni[b['n1']]] = 1
        if b['n2'] in ni:
            M[ni[b['n2']], N + k] = -1; M[N + k, ni[b['n2']]] = -1
    if M.size == 0:
        return 1.0
    try:
        if pseudo:
            sv = np.linalg.svd(M, compute_uv=False)
            sv = sv[sv > 1e-13 * sv.max()] if sv.size and sv.max() > 0 else sv
            return float(sv.max() / sv.min()) if sv.size else 1.0
        return float(np.linalg.cond(M))
    except Exception:
        return float('inf')


def well_conditioned(net, kmax=1e8) -> bool:
    return cond_estimate(net) <= kmax and nodal_cond(net) <= kmax


def reports(net, sol):
    """expected get_voltage / get_current / get_power per branch id in the library's reporting convention"""
    out = {}
    for b in net['branches']:
        _, _, _, cls = law(b)
        V = sol['phi'][b['n1']] - sol['phi'][b['n2']]
        I12 = sol['I'][b['id']]
        I = -I12 if cls == 'linear' else I12
        out[b['id']] = {'V': V, 'I': I, 'I12': I12, 'P': V * I.conj(), 'cls': cls}
    return out


def deactivate(b):
    """the same branch with its independent source set to zero (internal immittance kept)"""
    k, p = b['kind'], b.get('p', {})
    nb = dict(b)
    if k == 'vsrc':
        nb.update(kind='short', p={})
    elif k == 'isrc':
        nb.update(kind='open', p={})
    elif k == 'linv':
        nb.update(kind='impedance', p={'Z': p['Z']})
    elif k == 'lini':
        nb.update(kind='admittance', p={'Y': p['Y']})
    return nb


class UnionFind:
    def __init__(self):
        self.p = {}

    def find(self, x):
        self.p.setdefault(x, x)
        while self.p[x] != x:
            self.p[x] = self.p[self.p[x]]
            x = self.p[x]
        return x

    def union(self, a, b):
        ra, rb = self.find(a), self.find(b)
        if ra != rb:
            self.p[ra] = rb


def contract_shorts(net, keep_ids=()):
    """contract every zero-impedance source-free branch (union-find); returns (contracted net, node->class map)"""
    uf = UnionFind()
    for n in nodes_of(net):
        uf.find(n)
    rest = []
    for b in net['branches']:
        a, bb, c, _ = law(b)
        if not bb and not c and b['id'] not in keep_ids:
            uf.union(b['n1'], b['n2'])
        else:
            rest.append(b)
    # the class of the reference keeps the reference name
    rep = {}
    for n in nodes_of(net):
        rep.setdefault(uf.find(n), n)
    rep[uf.find(net['ref'])] = net['ref']
    m = {n: rep[uf.find(n)] for n in nodes_of(net)}
    out = []
    for b in rest:
        n1, n2 = m[b['n1']], m[b['n2']]
        if n1 == n2:
            continue     # self loop after contraction: carries no information about the rest
        nb = dict(b)
        nb['n1'], nb['n2'] = n1, n2
        out.append(nb)
    return {'ref': net['ref'], 'branches': out}, m


def port_impedance(net, n1, n2):
    """exact driving-point impedance between n1 and n2 with all independent sources deactivated.
    Returns GQ, 'inf' (port disconnected) or None (ill-posed, e.g. a lossless resonance)."""
    if n1 == n2:
        return ZERO
    dead = {'ref': n2, 'branches': [deactivate(b) for b in net['branches']]}
    con, m = contract_shorts(dead)
    if n1 not in m or n2 not in m:
        return 'inf'          # a terminal that no branch touches
    a, b_ = m[n1], m[n2]
    if a == b_:
        return ZERO
    # keep only what is reachable from the port through non-open branches
    adj = {}
    live = []
    for b in con['branches']:
        y = admittance_of(b)
        if y is not None and not y:
            continue      # open branch
        live.append(b)
        adj.setdefault(b['n1'], set()).add(b['n2'])
        adj.setdefault(b['n2'], set()).add(b['n1'])
    seen = {b_}
    stack = [b_]
    while stack:
        x = stack.pop()
        for y in adj.get(x, ()):
            if y not in seen:
                seen.add(y)
                stack.append(y)
    if a not in seen:
        return 'inf'
    sub = {'ref': b_, 'branches': [b for b in live if b['n1'] in seen and b['n2'] in seen]}
    # unit current driven from n2 to n1 through the external source: it enters the network at n1, so the
    # branch currents leaving n1 sum to +1
    sol = solve(sub, inject={a: ONE})
    if sol is None:
        return None
    return sol['phi'][a] - sol['phi'][b_]


# ---------------------------------------------------------------------------------------------------------------
# building the library's objects from a spec (the only place that touches the library)

def lib_element(b):
    from CircuitCalculator.Network import elements as elm
    k, p, i = b['kind'], b.get('p', {}), b['id']
    if k == 'resistor':
        return elm.resistor(i, cx(p['R']))
    if k == 'conductor':
        return elm.conductor(i, cx(p['G']))
    if k == 'impedance':
        return elm.impedance(i, cx(p['Z']))
    if k == 'admittance':
        return elm.admittance(i, cx(p['Y']))
    if k == 'load':
        if 'V_ref' in p:
            return elm.load(i, p['P'], V_ref=p['V_ref'], Q=p.get('Q', 0))
        return elm.load(i, p['P'], I_ref=p['I_ref'], Q=p.get('Q', 0))
    if k == 'vsrc':
        return elm.voltage_source(i, cx(p['V']))
    if k == 'isrc':
        return elm.current_source(i, cx(p['I']))
    if k == 'linv':
        return elm.voltage_source(i, cx(p['V']), cx(p['Z']))
    if k == 'lini':
        return elm.current_source(i, cx(p['I']), cx(p['Y']))
    if k == 'open':
        return elm.open_circuit(i)
    if k == 'short':
        return elm.short_circuit(i)
    raise ValueError(k)


def lib_network(net):
    from CircuitCalculator.Network.network import Network, Branch
    return Network([Branch(b['n1'], b['n2'], lib_element(b)) for b in net['branches']], node_zero_label=net['ref'])
