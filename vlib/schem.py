"""Drawing programs for the schematic front end: generation from an abstract netlist, execution, independent model.

A program is plain data: {'unit': u, 'items': [item, ...]} with items
  {'sym': <symbol kind>, 'name': str, 'p': [x, y], 'q': [x, y], 'args': {...}, 'reverse': bool}      two-terminal symbol
  {'sym': 'line', 'p': [x, y], 'q': [x, y]}                                                        plain wire
  {'sym': 'label', 'at': [x, y], 'name': str}   /   {'sym': 'ground', 'at': [x, y]}
Coordinates are multiples of 0.01 so that the parser's rounding to two decimals is exact.
"""
from __future__ import annotations
import math
from hypothesis import strategies as st
from . import gen, circuits as cc
from .refsolve import UnionFind

TWO_TERMINAL = ['resistor', 'conductance', 'impedance', 'capacitor', 'inductance', 'lamp', 'switch_open', 'switch_closed', 'labeled_line',
                'voltage_source', 'current_source', 'complex_voltage_source', 'complex_current_source', 'ac_voltage_source',
                'ac_current_source', 'rect_voltage_source', 'rect_current_source', 'tri_voltage_source', 'tri_current_source',
                'saw_voltage_source', 'saw_current_source']
SOURCES_V = ['voltage_source', 'complex_voltage_source', 'ac_voltage_source', 'rect_voltage_source', 'tri_voltage_source', 'saw_voltage_source']
SOURCES_I = ['current_source', 'complex_current_source', 'ac_current_source', 'rect_current_source', 'tri_current_source', 'saw_current_source']
PASSIVES = ['resistor', 'resistor', 'conductance', 'impedance', 'capacitor', 'inductance', 'lamp', 'switch_closed', 'switch_open', 'labeled_line']


def rnd(x):
    return round(x + 0.0, 2)


def pt(p):
    return (rnd(p[0]), rnd(p[1]))


def element(item):
    """the library symbol for one program item (the only place that touches the library)"""
    from CircuitCalculator.SimpleCircuit import Elements as elm
    s, a = item['sym'], dict(item.get('args', {}))
    name = item.get('name', '')
    rev = item.get('reverse', False)
    cx = lambda v: complex(*v) if isinstance(v, list) else v
    if s == 'line':
        e = elm.Line()
    elif s == 'label':
        return elm.LabelNode(name=name, id_loc=item.get('loc', 'N')).at(tuple(item['at']))
    elif s == 'ground':
        return (elm.Ground(name=item['name']) if 'name' in item else elm.Ground()).at(tuple(item['at']))
    elif s == 'resistor':
        e = elm.Resistor(R=a['R'], name=name)
    elif s == 'conductance':
        e = elm.Conductance(G=a['G'], name=name)
    elif s == 'impedance':
        e = elm.Impedance(Z=cx(a['Z']), name=name)
    elif s == 'capacitor':
        e = elm.Capacitor(C=a['C'], name=name)
    elif s == 'inductance':
        e = elm.Inductance(L=a['L'], name=name)
    elif s == 'lamp':
        e = elm.Lamp(V_ref=a['V_ref'], P_ref=a['P_ref'], name=name)
    elif s == 'switch_open':
        e = elm.Switch(name=name, state=elm.SwitchState.OPEN)
    elif s == 'switch_closed':
        e = elm.Switch(name=name, state=elm.SwitchState.CLOSED)
    elif s == 'labeled_line':
        e = elm.LabeledLine(name=name)
    elif s == 'voltage_source':
        e = elm.VoltageSource(V=a['V'], name=name, reverse=rev)
    elif s == 'current_source':
        e = elm.CurrentSource(I=a['I'], name=name, reverse=rev)
    elif s == 'complex_voltage_source':
        e = elm.ComplexVoltageSource(V=cx(a['V']), name=name, reverse=rev)
    elif s == 'complex_current_source':
        e = elm.ComplexCurrentSource(I=cx(a['I']), name=name, reverse=rev)
    elif s == 'ac_voltage_source':
        e = elm.ACVoltageSource(V=a['V'], w=a['w'], phi=a['phi'], name=name, deg=a.get('deg', False), sin=a.get('sin', False), reverse=rev)
    elif s == 'ac_current_source':
        e = elm.ACCurrentSource(I=a['I'], w=a['w'], phi=a['phi'], name=name, deg=a.get('deg', False), sin=a.get('sin', False), reverse=rev)
    elif s in ('rect_voltage_source', 'tri_voltage_source', 'saw_voltage_source'):
        cls = {'rect': elm.RectVoltageSource, 'tri': elm.TriangleVoltageSource, 'saw': elm.SawtoothVoltageSource}[s[:s.index('_')]]
        e = cls(V=a['V'], w=a['w'], phi=a['phi'], name=name, deg=a.get('deg', False), reverse=rev)
    elif s in ('rect_current_source', 'tri_current_source', 'saw_current_source'):
        cls = {'rect': elm.RectCurrentSource, 'tri': elm.TriangleCurrentSource, 'saw': elm.SawtoothCurrentSource}[s[:s.index('_')]]
        e = cls(I=a['I'], w=a['w'], phi=a['phi'], name=name, deg=a.get('deg', False), reverse=rev)
    else:
        raise ValueError(s)
    return e.endpoints(tuple(item['p']), tuple(item['q']))


def build(program, render=False, translate_after=None):
    """execute the program; with translate_after=k the drawing is translated once after its first k items (result
    discarded) and then completed on the same Schematic object - the way a drawing grows in a notebook"""
    from CircuitCalculator.SimpleCircuit import Elements as elm
    if translate_after is not None and not render:
        from CircuitCalculator.SimpleCircuit.DiagramTranslator import circuit_translator
        s = elm.Schematic(unit=program.get('unit', 3), show=False)
        for i, it in enumerate(program['items']):
            if i == translate_after:
                try:
                    circuit_translator(s)
                except Exception:   # an unfinished drawing need not be a valid circuit
                    pass
            s += element(it)
        return s
    if render:
        with elm.Schematic(unit=program.get('unit', 3), show=False) as s:
            for it in program['items']:
                s += element(it)
        return s
    s = elm.Schematic(unit=program.get('unit', 3), show=False)
    for it in program['items']:
        s += element(it)
    return s


# ---------------------------------------------------------------------------------------------------------------
# independent model of what the drawing depicts

def component_of(item, n1, n2):
    """the circuit component (spec of vlib.circuits) a symbol stands for, terminals already resolved to node names"""
    s, a, name = item['sym'], item.get('args', {}), item['name']
    rev = item.get('reverse', False)
    nodes = [n2, n1] if (rev and (s in SOURCES_V or s in SOURCES_I)) else [n1, n2]
    # a sine-referenced source A*sin(wt+phi) is the cosine A*cos(wt+phi-pi/2) (generated with phi in radians only)
    ph = lambda: (a['phi'] * math.pi / 180 if a.get('deg') else a['phi']) - (math.pi / 2 if a.get('sin') else 0.0)
    if s == 'resistor':
        return {'kind': 'resistor', 'id': name, 'nodes': nodes, 'args': {'R': a['R']}}
    if s == 'conductance':
        return {'kind': 'conductance', 'id': name, 'nodes': nodes, 'args': {'G': a['G']}}
    if s == 'impedance':
        return {'kind': 'impedance', 'id': name, 'nodes': nodes, 'args': {'Z': a['Z']}}
    if s == 'capacitor':
        return {'kind': 'capacitor', 'id': name, 'nodes': nodes, 'args': {'C': a['C']}}
    if s == 'inductance':
        return {'kind': 'inductance', 'id': name, 'nodes': nodes, 'args': {'L': a['L']}}
    if s == 'lamp':
        return {'kind': 'lamp', 'id': name, 'nodes': nodes, 'args': {'P': a['P_ref'], 'V_ref': a['V_ref']}}
    if s == 'switch_open':
        return {'kind': 'resistor', 'id': name, 'nodes': nodes, 'args': {'R': math.inf}}
    if s == 'switch_closed':
        return {'kind': 'resistor', 'id': name, 'nodes': nodes, 'args': {'R': 1e-12}}
    if s == 'labeled_line':
        return {'kind': 'short_circuit', 'id': name, 'nodes': nodes, 'args': {}}
    if s == 'voltage_source':
        return {'kind': 'dc_voltage_source', 'id': name, 'nodes': nodes, 'args': {'V': a['V']}}
    if s == 'current_source':
        return {'kind': 'dc_current_source', 'id': name, 'nodes': nodes, 'args': {'I': a['I']}}
    if s == 'complex_voltage_source':
        return {'kind': 'complex_voltage_source', 'id': name, 'nodes': nodes, 'args': {'V': a['V']}}
    if s == 'complex_current_source':
        return {'kind': 'complex_current_source', 'id': name, 'nodes': nodes, 'args': {'I': a['I']}}
    if s == 'ac_voltage_source':
        return {'kind': 'ac_voltage_source', 'id': name, 'nodes': nodes, 'args': {'V': a['V'], 'w': a['w'], 'phi': ph()}}
    if s == 'ac_current_source':
        return {'kind': 'ac_current_source', 'id': name, 'nodes': nodes, 'args': {'I': a['I'], 'w': a['w'], 'phi': ph()}}
    if s.endswith('_voltage_source'):
        return {'kind': 'periodic_voltage_source', 'id': name, 'nodes': nodes, 'args': {'wavetype': s[:s.index('_')], 'V': a['V'], 'w': a['w'], 'phi': ph()}}
    if s.endswith('_current_source'):
        return {'kind': 'periodic_current_source', 'id': name, 'nodes': nodes, 'args': {'wavetype': s[:s.index('_')], 'I': a['I'], 'w': a['w'], 'phi': ph()}}
    raise ValueError(s)


def model(program):
    """(circuit spec whose node names are class ids 'k0','k1',..., {class id: required label or None}, point -> class id)
    Two terminals are one node iff they coincide or are joined by a chain of wires (union-find over wire end points)."""
    uf = UnionFind()
    for it in program['items']:
        if 'p' in it:
            uf.find(pt(it['p'])); uf.find(pt(it['q']))
            if it['sym'] == 'line':
                uf.union(pt(it['p']), pt(it['q']))
        else:
            uf.find(pt(it['at']))
    roots, cls = {}, {}
    for p in list(uf.p):
        r = uf.find(p)
        roots.setdefault(r, f'k{len(roots)}')
        cls[p] = roots[r]
    labels = {c: None for c in roots.values()}
    ground = None
    for it in program['items']:
        if it['sym'] in ('label', 'ground'):
            k = cls[pt(it['at'])]
            name = it['name'] if it['sym'] == 'label' else it.get('name', '0')
            # a label and the ground symbol on one net: the property does not say which of the two names wins, either
            # is accepted (a tuple) - the net is one node and the reference all the same
            labels[k] = name if labels[k] is None else tuple(sorted(set((labels[k] if isinstance(labels[k], tuple) else (labels[k],)) + (name,))))
        if it['sym'] == 'ground':
            ground = cls[pt(it['at'])]
            ground_id = it.get('name', '0')
    comps = []
    for it in program['items']:
        if 'p' in it and it['sym'] != 'line':
            comps.append(component_of(it, cls[pt(it['p'])], cls[pt(it['q'])]))
    if ground is not None:
        comps.append({'kind': 'ground', 'id': ground_id, 'nodes': [ground], 'args': {}})
    return {'components': comps}, labels, cls


# ---------------------------------------------------------------------------------------------------------------
# program transformations (shrink as data)

def rotate(program, quarter_turns):
    def rp(p):
        x, y = p
        for _ in range(quarter_turns % 4):
            x, y = -y, x
        return [rnd(x), rnd(y)]
    return _map_points(program, rp)


def translate(program, dx, dy):
    return _map_points(program, lambda p: [rnd(p[0] + dx), rnd(p[1] + dy)])


def rescale(program, factor):
    out = _map_points(program, lambda p: [rnd(p[0] * factor), rnd(p[1] * factor)])
    out['unit'] = rnd(program.get('unit', 3) * factor)
    return out


def _map_points(program, f):
    items = []
    for it in program['items']:
        ni = dict(it)
        for k in ('p', 'q', 'at'):
            if k in ni:
                ni[k] = f(ni[k])
        items.append(ni)
    return {'unit': program.get('unit', 3), 'items': items}


def subdivide(program, fractions):
    """split every plain wire into two or three collinear segments"""
    items, k = [], 0
    taken = set()
    for it in program['items']:
        for key in ('p', 'q', 'at'):
            if key in it:
                taken.add(pt(it[key]))
    for it in program['items']:
        if it['sym'] != 'line':
            items.append(it)
            continue
        f = fractions[k % len(fractions)]
        k += 1
        p, q = it['p'], it['q']
        m = [rnd(p[0] + (q[0] - p[0]) * f), rnd(p[1] + (q[1] - p[1]) * f)]
        if pt(m) in taken:
            items.append(it)          # the split point would land on another terminal (and join two nodes): leave the wire whole
            continue
        taken.add(pt(m))
        items.append({'sym': 'line', 'p': p, 'q': m})
        items.append({'sym': 'line', 'p': m, 'q': q})
    return {'unit': program.get('unit', 3), 'items': items}


def permute(program, keys):
    order = sorted(range(len(program['items'])), key=lambda i: (keys[i % len(keys)], i))
    return {'unit': program.get('unit', 3), 'items': [program['items'][i] for i in order]}


# ---------------------------------------------------------------------------------------------------------------
# generator

@st.composite
def symbol_args(draw, s, w0):
    if s == 'resistor':
        return {'R': draw(gen.pos_real(-1, 4))}
    if s == 'conductance':
        return {'G': draw(gen.pos_real(-4, 1))}
    if s == 'impedance':
        return {'Z': draw(gen.passive_complex(-1, 3))}
    if s == 'capacitor':
        return {'C': draw(gen.pos_real(-7, -3))}
    if s == 'inductance':
        return {'L': draw(gen.pos_real(-4, 0))}
    if s == 'lamp':
        V = draw(gen.pos_real(0, 2))
        return {'V_ref': V, 'P_ref': float(f'{draw(gen.pos_real(-3, 0)) * V * V:.3g}')}
    if s in ('switch_open', 'switch_closed', 'labeled_line'):
        return {}
    if s == 'voltage_source':
        return {'V': draw(gen.signed_real(-1, 2))}
    if s == 'current_source':
        return {'I': draw(gen.signed_real(-3, 1))}
    if s == 'complex_voltage_source':
        return {'V': draw(gen.complex_val(-1, 2))}
    if s == 'complex_current_source':
        return {'I': draw(gen.complex_val(-3, 1))}
    deg = draw(st.booleans())
    phi = draw(st.sampled_from([0.0, 30.0, -90.0, 45.0, 180.0, 400.0])) if deg else draw(cc.phase)
    amp = draw(gen.signed_real(-1, 2)) if 'voltage' in s else draw(gen.signed_real(-3, 1))
    out = {('V' if 'voltage' in s else 'I'): amp, 'w': w0, 'phi': phi, 'deg': deg}
    if s in ('ac_voltage_source', 'ac_current_source') and not deg and draw(st.sampled_from([False, False, True])):
        out['sin'] = True
    return out


@st.composite
def drawing(draw, min_symbols=3, max_symbols=6, symbol_pool=None, sources_v=None, sources_i=None, with_ground=None, label_on_ground=True):
    """a drawing program for a random connected netlist; every netlist node has a home point, every symbol two private
    terminal points (or sits directly on home points), wires (optionally chains) join terminals to homes"""
    pool = symbol_pool or PASSIVES
    sv, si = sources_v or SOURCES_V, sources_i or SOURCES_I
    n, edges = draw(gen.topology(2, 4, max_symbols))
    edges = edges[:max(min_symbols, len(edges))]
    step = draw(st.sampled_from([1.0, 1.0, 2.0, 3.0, 1.5]))
    # distinct grid points
    coords = draw(st.lists(st.tuples(st.integers(-9, 9), st.integers(-9, 9)), min_size=n + 5 * len(edges) + 6, max_size=n + 5 * len(edges) + 6, unique=True))
    pts = [[rnd(x * step), rnd(y * step)] for x, y in coords]
    take = iter(pts)
    home = [next(take) for _ in range(n)]
    names = draw(st.lists(gen.label.filter(lambda x: x != '0'), min_size=len(edges), max_size=len(edges), unique=True))   # '0' is the ground symbol's id
    w0 = draw(st.sampled_from([1.0, 50.0, 314.0, 1000.0, 314.1592653589793, 2.5, 0.5]))
    items, nsrc = [], 0
    for (a, b, on_tree), name in zip(edges, names):
        roll = draw(st.sampled_from(range(10)))
        if roll < 3:
            s = draw(st.sampled_from(sv if on_tree else si))
            nsrc += 1
        else:
            s = draw(st.sampled_from(pool))
        it = {'sym': s, 'name': name, 'args': draw(symbol_args(s, w0)), 'reverse': draw(st.booleans()) if (s in SOURCES_V or s in SOURCES_I) else False}
        ends = []
        for node in (a, b):
            mode = draw(st.sampled_from([0, 1, 1, 2]))
            if mode == 1:
                ends.append(home[node])                       # terminal coincides with the node's home point
                continue
            t = next(take)
            if mode == 0:
                items.append({'sym': 'line', 'p': t, 'q': home[node]} if draw(st.booleans()) else {'sym': 'line', 'p': home[node], 'q': t})
            else:
                mid = next(take)                              # chain of two wires
                items.append({'sym': 'line', 'p': t, 'q': mid})
                items.append({'sym': 'line', 'p': home[node], 'q': mid})
            ends.append(t)
        # a symbol cannot be drawn shorter than its body (schemdraw then moves the end terminal): keep terminals apart
        if math.hypot(ends[0][0] - ends[1][0], ends[0][1] - ends[1][1]) < 2.0:
            far = None
            for cand in take:
                if math.hypot(ends[0][0] - cand[0], ends[0][1] - cand[1]) >= 2.0:
                    far = cand
                    break
            if far is None:
                far = [rnd(ends[0][0] + 25.0 + len(items)), rnd(ends[0][1])]
            items.append({'sym': 'line', 'p': far, 'q': ends[1]})
            ends[1] = far
        it['p'], it['q'] = ends
        items.append(it)
    if nsrc == 0:
        for it in items:
            if it['sym'] in pool and it['sym'] not in ('switch_open',):
                s = draw(st.sampled_from(['voltage_source', 'ac_voltage_source']))
                it['sym'], it['args'], it['reverse'] = s, draw(symbol_args(s, w0)), draw(st.booleans())
                break
    g = with_ground if with_ground is not None else draw(st.sampled_from([True, True, False]))
    used = set()
    if g:
        k = draw(st.sampled_from(range(n)))
        items.append({'sym': 'ground', 'at': home[k]})
        used.add(k)
    # numeric labels are legal and interesting: unlabelled nodes are numbered automatically and must dodge them
    for lab in draw(st.lists(st.one_of(st.sampled_from(['1', '2', '3', '4', '5', '6', '10']), gen.label.filter(lambda s: s != '0')), max_size=2, unique=True)):
        k = draw(st.sampled_from(range(n)))
        if k not in used and lab not in names:
            used.add(k)
            items.append({'sym': 'label', 'at': home[k], 'name': lab, 'loc': draw(st.sampled_from(['N', 'S', 'E', 'W', 'NE']))})
    wires = [it for it in items if it['sym'] == 'line']
    if wires and draw(st.integers(0, 4)) == 0:
        # the same connection drawn a second time the other way round: a wire net in which every point is the END of
        # some wire (as in a closed ring of wires drawn head to tail) is still one node
        w_ = wires[draw(st.integers(0, len(wires) - 1))]
        items.append({'sym': 'line', 'p': list(w_['q']), 'q': list(w_['p'])})
    if g and label_on_ground and draw(st.integers(0, 3)) == 0:
        # a named node on the reference net itself (at the ground symbol, or at any other point of that net)
        lab = draw(st.sampled_from(['N', 'gnd', 'GND', '7', 'ref']))
        if lab not in names and all(it.get('name') != lab for it in items):
            _, _, cls = model({'items': items})
            gk = cls[pt(next(it['at'] for it in items if it['sym'] == 'ground'))]
            pts = sorted(p for p, k in cls.items() if k == gk)
            at = list(pts[draw(st.integers(0, len(pts) - 1))])
            items.append({'sym': 'label', 'at': at, 'name': lab, 'loc': draw(st.sampled_from(['N', 'S', 'E', 'W', 'NE']))})
    items = list(draw(st.permutations(items)))
    return {'unit': draw(st.sampled_from([3, 7, 2.5])), 'items': items}
