"""Exact linear algebra over the Gaussian rationals Q(i) (pairs of fractions.Fraction)."""
from __future__ import annotations
from fractions import Fraction as F

ZERO_F = F(0)


class GQ:
    __slots__ = ('re', 'im')

    def __init__(self, re=0, im=0):
        self.re = re if isinstance(re, F) else F(re)
        self.im = im if isinstance(im, F) else F(im)

    @staticmethod
    def of(x) -> 'GQ':
        if isinstance(x, GQ):
            return x
        if isinstance(x, complex):
            return GQ(F(x.real), F(x.imag))
        if isinstance(x, (list, tuple)) and len(x) == 2:
            return GQ(F(x[0]), F(x[1]))
        return GQ(F(x), ZERO_F)

    def __bool__(self):
        return bool(self.re) or bool(self.im)

    def is_zero(self):
        return not self.re and not self.im

    def __add__(self, o):
        o = GQ.of(o)
        return GQ(self.re + o.re, self.im + o.im)
    __radd__ = __add__

    def __sub__(self, o):
        o = GQ.of(o)
        return GQ(self.re - o.re, self.im - o.im)

    def __rsub__(self, o):
        return GQ.of(o) - self

    def __neg__(self):
        return GQ(-self.re, -self.im)

    def __mul__(self, o):
        o = GQ.of(o)
        if not self.im and not o.im:
            return GQ(self.re * o.re, ZERO_F)
        return GQ(self.re * o.re - self.im * o.im, self.re * o.im + self.im * o.re)
    __rmul__ = __mul__

    def inv(self):
        d = self.re * self.re + self.im * self.im
        return GQ(self.re / d, -self.im / d)

    def __truediv__(self, o):
        return self * GQ.of(o).inv()

    def __rtruediv__(self, o):
        return GQ.of(o) * self.inv()

    def conj(self):
        return GQ(self.re, -self.im)

    def abs2(self) -> F:
        return self.re * self.re + self.im * self.im

    def __eq__(self, o):
        if o is None or isinstance(o, str):
            return False
        o = GQ.of(o)
        return self.re == o.re and self.im == o.im

    def __hash__(self):
        return hash((self.re, self.im))

    def __complex__(self):
        return complex(float(self.re), float(self.im))

    def __repr__(self):
        return f'GQ({self.re},{self.im})'


ZERO = GQ(0)
ONE = GQ(1)
J = GQ(0, 1)


def c(x) -> complex:
    return complex(x) if isinstance(x, GQ) else complex(x)


def solve(A: list[list[GQ]], b: list[GQ]):
    """Gauss-Jordan over Q(i) on a dense list-of-rows matrix with sparsity shortcuts.
    Returns (x, det_is_nonzero). x is None when A is singular."""
    n = len(A)
    M = [list(row) + [bi] for row, bi in zip(A, b)]
    for col in range(n):
        piv = None
        # prefer the sparsest pivot row (keeps fill-in and number growth small)
        best = None
        for r in range(col, n):
            if M[r][col]:
                nz = sum(1 for v in M[r] if v)
                if best is None or nz < best:
                    best, piv = nz, r
        if piv is None:
            return None
        if piv != col:
            M[col], M[piv] = M[piv], M[col]
        pv = M[col][col].inv()
        rowc = M[col]
        nzcols = [j for j in range(col, n + 1) if rowc[j]]
        for j in nzcols:
            rowc[j] = rowc[j] * pv
        for r in range(n):
            if r == col:
                continue
            f = M[r][col]
            if not f:
                continue
            rr = M[r]
            for j in nzcols:
                rr[j] = rr[j] - f * rowc[j]
    return [M[i][n] for i in range(n)]


def det_nonzero(A: list[list[GQ]]) -> bool:
    n = len(A)
    if n == 0:
        return True
    return solve(A, [ZERO] * n) is not None


def rank(A: list[list[GQ]]) -> int:
    M = [list(r) for r in A]
    rows = len(M)
    cols = len(M[0]) if rows else 0
    rk = 0
    for col in range(cols):
        piv = None
        for r in range(rk, rows):
            if M[r][col]:
                piv = r
                break
        if piv is None:
            continue
        M[rk], M[piv] = M[piv], M[rk]
        pv = M[rk][col].inv()
        for r in range(rk + 1, rows):
            f = M[r][col]
            if f:
                f = f * pv
                for j in range(col, cols):
                    if M[rk][j]:
                        M[r][j] = M[r][j] - f * M[rk][j]
        rk += 1
        if rk == rows:
            break
    return rk
