"""Hypothesis strategies shared by the checks: values, labels, network topologies (construct, don't filter)."""
from __future__ import annotations
from hypothesis import strategies as st

E6 = [10, 15, 22, 33, 47, 68]


@st.composite
def pos_real(draw, kmin=-3, kmax=4):
    """positive real m*10^k over several decades; the float is the correctly rounded decimal"""
    if draw(st.booleans()):
        m = draw(st.sampled_from(E6))
        k = draw(st.integers(kmin, kmax)) - 1
    else:
        m = draw(st.integers(100, 999))
        k = draw(st.integers(kmin, kmax)) - 2
    return float(f'{m}e{k}')


@st.composite
def signed_real(draw, kmin=-3, kmax=4):
    v = draw(pos_real(kmin, kmax))
    return -v if draw(st.booleans()) else v


@st.composite
def complex_val(draw, kmin=-3, kmax=4, nonzero_real=False):
    """complex [re, im]: independent parts, sometimes purely real/imaginary, sometimes decades apart"""
    mode = draw(st.integers(0, 5))
    k = draw(st.integers(kmin + 1, kmax - 1)) if kmax - kmin >= 2 else kmin
    if mode == 0 and not nonzero_real:
        return [0.0, draw(signed_real(kmin, kmax))]
    if mode == 1:
        return [draw(signed_real(kmin, kmax)), 0.0]
    if mode == 2:
        return [draw(signed_real(k - 1, k - 1)), draw(signed_real(k + 1, k + 1))]
    return [draw(signed_real(k - 1, k + 1)), draw(signed_real(k - 1, k + 1))]


@st.composite
def passive_complex(draw, kmin=-3, kmax=4):
    """complex immittance with positive real part (lossy), either sign of the imaginary part"""
    re = draw(pos_real(kmin, kmax))
    mode = draw(st.integers(0, 3))
    if mode == 0:
        return [re, 0.0]
    return [re, draw(signed_real(kmin, kmax))]


def maybe_complex(real_strategy, complex_strategy, p_complex=0.4):
    return st.one_of(real_strategy, complex_strategy) if p_complex else real_strategy


# ---------------------------------------------------------------------------------------------------------------
# labels

POOL = ['0', '1', '2', '3', '9', '10', '11', '100', '-1', '1.0', '01',
        'a', 'b', 'c', 'A', 'B', 'C', 'aa', 'ab', 'Ab', 'aB', 'a1', 'a10', 'a2', 'z', 'Z', '_', '__', ' ', 'x y',
        'R', 'R1', 'R2', 'R10', 'r1', 'Rq', 'G1', 'Z1', 'Y1',
        'V', 'V1', 'V2', 'Vs', 'Vq', 'Uq', 'v', 'U',
        'I', 'I1', 'I2', 'Is', 'Iq', 'i',
        'L', 'L1', 'L2', 'L10', 'l', 'C1', 'C2', 'C10',
        'gnd', 'GND', 'n', 'N1', 'Ω', 'ü', 'φ', 'µ', '节', 'Z_L', 'in', 'out', 'None', 'nan', 'inf',
        # families whose natural (numeric) order differs from their string order, and ids that are substrings of others
        'V10', 'U9', 'U10', 'L3', 'L12', 'R9', 'Is2', 'Is10', 'Iq10', 'Vs1', 'Vs10', 'C', 'Ra', 'Rab', 's1', 'Rs1', 'x', 'x1', 'x10']

_text = st.text(alphabet=st.sampled_from(list('abcxyzABCXYZ0123456789_-. ') + ['ä', 'Ω', 'é', '中']), min_size=1, max_size=4)
label = st.one_of(st.sampled_from(POOL), st.sampled_from(POOL), _text)


def labels(n: int):
    """n distinct non-empty labels"""
    return st.lists(label, min_size=n, max_size=n, unique=True)


# ---------------------------------------------------------------------------------------------------------------
# topologies

@st.composite
def topology(draw, nmin=2, nmax=8, max_branches=14, min_extra=0):
    """connected multigraph: random spanning tree plus extra edges (parallel edges allowed, no self loops);
    returns (n, edges[(a, b, on_tree)]) with random orientation and random listing order"""
    n = draw(st.integers(nmin, nmax))
    edges = []
    for i in range(1, n):
        p = draw(st.integers(0, i - 1))
        edges.append((p, i, True))
    max_extra = max(min_extra, max_branches - (n - 1))
    extra = draw(st.integers(min_extra, max_extra))
    for _ in range(extra):
        a = draw(st.integers(0, n - 1))
        b = draw(st.integers(0, n - 2))
        if b >= a:
            b += 1
        edges.append((a, b, False))
    out = []
    for a, b, t in edges:
        if draw(st.booleans()):
            a, b = b, a
        out.append((a, b, t))
    out = draw(st.permutations(out))
    return n, list(out)


@st.composite
def load_params(draw):
    """load given by rated power and rated voltage/current, chosen so that the resulting immittance P/X_ref^2 stays
    within the decades of the other elements (a free choice would span 20 decades and only produce ill-conditioning)"""
    x = draw(pos_real(-1, 3))
    y = draw(pos_real(-3, 3))       # P/x^2: admittance (V_ref form) or impedance (I_ref form) of the load
    if draw(st.booleans()):
        ref = 'V_ref'
        y = y / 10
    else:
        ref = 'I_ref'
        y = y * 10
    P = float(f'{y * x * x:.3g}')
    q = draw(st.integers(0, 2))
    Q = 0 if q == 0 else (P * draw(st.sampled_from([0.5, -0.5, 2.0, -1.0, 0.1])))
    return {'P': P, 'Q': Q, ref: x}


# element kinds of the network level
def network_element(kind: str, cplx: bool):
    """impedance-type values lie in 1e-2..1e4 Ohm and admittance-type values in 1e-4..1e2 S, so that all branch
    impedances of one network span at most six decades; source values span 1e-3..1e4"""
    zre, zsre = pos_real(-2, 4), signed_real(-2, 4)
    yre, ysre = pos_real(-4, 2), signed_real(-4, 2)
    sre = signed_real()
    if kind == 'resistor':
        return st.fixed_dictionaries({'R': zsre if cplx else zre})
    if kind == 'conductor':
        return st.fixed_dictionaries({'G': ysre if cplx else yre})
    if kind == 'impedance':
        return st.fixed_dictionaries({'Z': complex_val(-2, 4) if cplx else passive_complex(-2, 4)})
    if kind == 'admittance':
        return st.fixed_dictionaries({'Y': complex_val(-4, 2) if cplx else passive_complex(-4, 2)})
    if kind == 'load':
        return load_params()
    if kind == 'vsrc':
        return st.fixed_dictionaries({'V': st.one_of(sre, complex_val())})
    if kind == 'isrc':
        return st.fixed_dictionaries({'I': st.one_of(sre, complex_val())})
    if kind == 'linv':
        return st.fixed_dictionaries({'V': st.one_of(sre, complex_val()), 'Z': st.one_of(zre, complex_val(-2, 4) if cplx else passive_complex(-2, 4))})
    if kind == 'lini':
        return st.fixed_dictionaries({'I': st.one_of(sre, complex_val()), 'Y': st.one_of(yre, complex_val(-4, 2) if cplx else passive_complex(-4, 2))})
    if kind in ('open', 'short'):
        return st.just({})
    raise ValueError(kind)


TREE_KINDS = ['resistor', 'resistor', 'conductor', 'impedance', 'admittance', 'load', 'vsrc', 'vsrc', 'linv', 'lini', 'isrc']
EXTRA_KINDS = ['resistor', 'resistor', 'conductor', 'impedance', 'admittance', 'load', 'isrc', 'isrc', 'linv', 'lini', 'vsrc']


@st.composite
def network(draw, nmin=2, nmax=8, max_branches=14, opens_shorts=False, min_sources=1, cplx=None,
            tree_kinds=TREE_KINDS, extra_kinds=EXTRA_KINDS):
    """network spec of refsolve: every kind, real and complex values of either sign, any reference, adversarial labels"""
    n, edges = draw(topology(nmin, nmax, max_branches))
    node_names = draw(labels(n))
    ids = draw(labels(len(edges)))
    if cplx is None:
        cplx = draw(st.booleans())
    branches = []
    for (a, b, on_tree), i in zip(edges, ids):
        pool = tree_kinds if on_tree else extra_kinds
        if opens_shorts and draw(st.integers(0, 5)) == 0:
            kind = draw(st.sampled_from(['open', 'short'])) if not on_tree else 'short'
        else:
            kind = draw(st.sampled_from(pool))
        p = draw(network_element(kind, cplx))
        branches.append({'id': i, 'n1': node_names[a], 'n2': node_names[b], 'kind': kind, 'p': p})
    nsrc = sum(1 for b in branches if b['kind'] in ('vsrc', 'isrc', 'linv', 'lini'))
    j = 0
    while nsrc < min_sources and j < len(branches):
        # turn passive extra edges (or, failing that, any edge) into linear sources: keeps well-posedness likely
        b = branches[j]
        if b['kind'] in ('resistor', 'conductor', 'impedance', 'admittance', 'load'):
            kind = draw(st.sampled_from(['linv', 'lini']))
            b['kind'], b['p'] = kind, draw(network_element(kind, cplx))
            nsrc += 1
        j += 1
    # occasionally the whole excitation lives in the nA/pV (or MV) range: solutions are linear in the sources, no
    # absolute threshold may decide that "nothing is there"
    f = draw(st.sampled_from([1.0] * 9 + [1e-9, 3e-12, 1e-15, 1e6]))
    if f != 1.0:
        for b in branches:
            if b['kind'] in ('vsrc', 'isrc', 'linv', 'lini'):
                for key in ('V', 'I'):
                    if key in b['p']:
                        b['p'][key] = _scale(b['p'][key], f)
    ref = node_names[draw(st.integers(0, n - 1))]
    return {'ref': ref, 'branches': branches}


# ---------------------------------------------------------------------------------------------------------------
# value-perturbed twins: same labels, same topology, same listing order - other numbers. Evaluating a case and its
# twin in the same process exposes results that are cached or looked up by structure/name instead of by value.

def _scale(v, f):
    if isinstance(v, list):
        return [float(f'{x * f:.6g}') for x in v]
    if isinstance(v, bool) or not isinstance(v, (int, float)):
        return v
    return float(f'{v * f:.6g}')


def twin_network(net):
    import copy
    out = copy.deepcopy(net)
    fs = [2.5, 0.4, 3.0, 0.7, 1.6]
    for k, b in enumerate(out['branches']):
        for key in list(b['p']):
            if key in ('V_ref', 'I_ref'):
                continue
            b['p'][key] = _scale(b['p'][key], fs[k % len(fs)])
    return out


def twin_circuit(spec):
    import copy
    out = copy.deepcopy(spec)
    fs = [2.5, 0.4, 3.0, 0.7, 1.6]
    for k, c in enumerate(out['components']):
        for key in list(c.get('args', {})):
            if key in ('w', 'phi', 'wavetype', 'V_ref', 'deg', 'sin'):
                continue
            c['args'][key] = _scale(c['args'][key], fs[k % len(fs)])
    return out
