"""Tolerances: library floats against the exact reference, relative to the natural scale of the network."""
from __future__ import annotations
from .refsolve import law, admittance_of, nodes_of

RTOL = 1e-6          # library vs exact reference
RTOL_REL = 1e-7      # library vs library (metamorphic)
KAPPA_MAX = 1e8


def cabs(x) -> float:
    return abs(complex(x))


def scales(net, sol):
    """(S_phi, {id: S_I}) natural voltage scale and per-branch current scale"""
    phis = [cabs(v) for v in sol['phi'].values()]
    Imax = max([cabs(v) for v in sol['I'].values()] + [0.0])
    srcV = 0.0
    for b in net['branches']:
        a, bb, c, _ = law(b)
        if c:
            if not bb:
                srcV = max(srcV, cabs(c))                    # ideal voltage source value
            elif a:
                srcV = max(srcV, cabs(c) / cabs(a))          # linear source: open-circuit voltage scale
    drops = 0.0
    for b in net['branches']:
        y = admittance_of(b)
        if y is not None and y:
            drops = max(drops, cabs(sol['I'][b['id']]) / cabs(y))
    node_y = {n: 0.0 for n in nodes_of(net)}
    for b in net['branches']:
        y = admittance_of(b)
        if y is not None:
            node_y[b['n1']] += cabs(y)
            node_y[b['n2']] += cabs(y)
    ymin = min([v for n, v in node_y.items() if v > 0] + [float('inf')])
    S_phi = max(phis + [srcV, drops, (Imax / ymin if ymin < float('inf') else 0.0)])
    if S_phi == 0:
        S_phi = 1e-300
    S_I = {}
    ymax = max([cabs(admittance_of(b)) for b in net['branches'] if admittance_of(b) is not None] + [0.0])
    for b in net['branches']:
        y = admittance_of(b)
        if y is None:
            # current of a zero-impedance branch is a component of the solved vector: scale of the largest
            # current any branch of the network carries at full voltage scale
            S_I[b['id']] = Imax + ymax * S_phi
        else:
            S_I[b['id']] = Imax + cabs(y) * S_phi
        if S_I[b['id']] == 0:
            S_I[b['id']] = 1e-300
    return S_phi, S_I


def close(x, y, scale, rtol=RTOL) -> bool:
    try:
        d = abs(complex(x) - complex(y))
    except (TypeError, ValueError):
        return False
    return d <= rtol * scale and d == d
