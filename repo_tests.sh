#!/bin/bash
# Regression guards for "fix:" commits in /repo: (1) the pinned baseline command, (2) the repo's own suite pointed at /repo/src.
cd /repo
export HYPOTHESIS_STORAGE_DIRECTORY=$(mktemp -d /tmp/hypdb-XXXX)
trap "rm -rf $HYPOTHESIS_STORAGE_DIRECTORY /repo/.hypothesis" EXIT
echo "== pinned (installed wheel) =="
/venv/bin/python -m pytest -q -p no:cacheprovider --timeout=900 --continue-on-collection-errors 2>&1 | tail -1
echo "== suite against /repo/src =="
PYTHONPATH=/repo/src MPLBACKEND=Agg /venv/bin/python -m pytest -q -p no:cacheprovider --timeout=900 --continue-on-collection-errors --hypothesis-seed=0 2>&1 | tail -8
git -C /repo status --short | grep -v '^??' | head
