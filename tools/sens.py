#!/venv/bin/python
"""Sensitivity campaign (DESIGN.md 3.8): apply one hand-written mutant at a time to a scratch copy of /repo/src and
confirm the quick tier of the property's check reports a violation.   tools/sens.py C01 [C02 ...] | all
Scratch copies live under /tmp and are removed after each mutant."""
import json, os, shutil, subprocess, sys, tempfile, time

HERE = os.path.dirname(os.path.abspath(__file__))
VERIF = os.path.dirname(HERE)
MUTANTS = json.load(open(os.path.join(HERE, 'mutants.json')))


def run(prop, mutant):
    tmp = tempfile.mkdtemp(prefix='mut-')
    try:
        shutil.copytree('/repo/src', os.path.join(tmp, 'src'))
        path = os.path.join(tmp, 'src', 'CircuitCalculator', mutant['file'])
        s = open(path).read()
        if s.count(mutant['old']) < 1:
            return 'STALE (pattern not found)', 0
        s = s.replace(mutant['old'], mutant['new'], mutant.get('count', 1))
        open(path, 'w').write(s)
        env = dict(os.environ, VERIF_SRC=os.path.join(tmp, 'src'), VERIF_EVIDENCE_DIR=os.path.join(tmp, 'ev'), VERIF_REPLAY_DIR=os.path.join(tmp, 'rp'))
        t0 = time.time()
        p = subprocess.run([os.path.join(VERIF, 'run'), prop, mutant.get('tier', 'quick')], env=env, capture_output=True, text=True)
        dt = time.time() - t0
        subs = sorted({l.split('sub=')[1].split(' count=')[0] for l in p.stdout.splitlines() if ' sub=' in l})
        if p.returncode == 1 and 'VIOLATION' in p.stdout:
            return 'KILLED ' + ';'.join(subs)[:150], dt
        return f'SURVIVED (exit {p.returncode})', dt
    finally:
        shutil.rmtree(tmp, ignore_errors=True)


def main():
    props = sys.argv[1:]
    if props == ['all'] or not props:
        props = sorted(MUTANTS)
    bad = 0
    for prop in props:
        for m in MUTANTS.get(prop, []):
            res, dt = run(prop, m)
            if not res.startswith('KILLED') and not m.get('equivalent'):
                bad += 1
            print(f'{prop} {m["name"]:<42} {res}  [{dt:.0f}s]', flush=True)
    return 1 if bad else 0


if __name__ == '__main__':
    sys.exit(main())
