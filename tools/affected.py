#!/venv/bin/python
"""Which checks must be re-run after editing a file of /verif?  tools/affected.py vlib/schem.py checks/c09.py ...
A check is affected if it imports the edited module directly or through another check / vlib module (transitively)."""
import os, re, sys
V = os.path.dirname(os.path.dirname(os.path.abspath(__file__)))


def imports(path):
    s = open(path).read()
    out = set()
    for m in re.finditer(r'from vlib import ([^\n]+)', s):
        out |= {'vlib/' + x.strip().split(' as ')[0] + '.py' for x in m.group(1).split(',')}
    for m in re.finditer(r'from vlib\.(\w+) import', s):
        out.add(f'vlib/{m.group(1)}.py')
    for m in re.finditer(r'from \.(\w+) import|from \. import ([^\n]+)', s):
        if m.group(1):
            out.add(f'vlib/{m.group(1)}.py')
        else:
            out |= {'vlib/' + x.strip().split(' as ')[0] + '.py' for x in m.group(2).split(',')}
    for m in re.finditer(r'import checks\.(c\d\d)|from checks\.(c\d\d) import|from checks import (c\d\d)', s):
        out.add('checks/' + next(g for g in m.groups() if g) + '.py')
    return {o for o in out if os.path.exists(os.path.join(V, o))}


def closure(f, seen=None):
    seen = seen if seen is not None else set()
    for d in imports(os.path.join(V, f)):
        if d not in seen:
            seen.add(d)
            closure(d, seen)
    return seen


if __name__ == '__main__':
    edited = {os.path.relpath(os.path.abspath(a), V) for a in sys.argv[1:]}
    hit = []
    for i in range(1, 21):
        c = f'checks/c{i:02d}.py'
        if c in edited or closure(c) & edited:
            hit.append(f'C{i:02d}')
    print(' '.join(hit))
