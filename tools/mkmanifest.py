#!/venv/bin/python
"""Regenerates /verif/MANIFEST.json from the table below; a property is claimed iff checks/<id>.py exists."""
import json, os

VERIF = os.path.dirname(os.path.dirname(os.path.abspath(__file__)))

T = {
 'C01': dict(design='4/C01', technique='property-based differential testing against an exact rational sparse-tableau solver + bounded-exhaustive small topologies',
             text='Generated-input search: random networks (all element kinds, labels, references) and complete enumeration of small oriented multigraphs; every reported potential/voltage/current/power is compared with an exact Q(i) tableau solution and re-validated against KCL and the element laws. Exploration, not proof: holds on the cases generated.',
             note='Trusts the 150-line exact tableau solver (shares no code with the library), the reference directions of DESIGN 0.1 and numpy for the conditioning guard (cases with condition > 1e8 are not judged).'),

 'C08': dict(design='4/C08', technique='property-based testing against the true Fourier coefficients of the waveform time functions (DFT / numerically located break points + closed-form piecewise-linear integrals), Bessel-Parseval bound',
             text='Generated (waveform, amplitude, phase, offset, period, order) tuples; each harmonic amplitude/phase and the a/b/c forms are compared with the coefficient obtained from the waveform\'s own time function by an independent integration; partial energy sums are bracketed by Bessel/Parseval. Exploration over generated inputs.',
             note='Trusts numpy FFT-free direct DFT sums and the break-point locator (verified per case by linearity probes); tolerance 1e-7 of the amplitude.'),
 'C18': dict(design='4/C18', technique='bounded-exhaustive decimal grid + property-based random floats against a strict text parser with exact decimal arithmetic',
             text='Every p<=3 (thorough p<=4) digit mantissa x decade x float neighbours x sign x prefix table is rendered and parsed back; random binary64 values, complex values in all quadrants (Cartesian/polar) and every Display.print_* helper likewise. Accuracy is judged in exact Decimal arithmetic. The enumerated grid is complete; the rest is exploration.',
             note='Trusts the strict parser in vlib/parse_display.py and Python Decimal; ties within 1e-9 of half a unit are accepted either way; infinity is accepted from 10^(max_exp+1) of the table in force; open finding F20 (precision-dependent suppression of complex parts) is reported as KNOWN-FINDING.'),

 'C17': dict(design='4/C17', technique='grammar-based property testing of the loaders: independent kind->value table, round-trip and deep-snapshot (no-mutation) oracles',
             text='Generated network/circuit descriptions over every kind of both loader tables, the three complex notations, and recursively nested JSON/YAML documents; loaded elements are compared with an independent table, every argument is deep-compared before/after each call, loads are repeated. Exploration over generated inputs.',
             note='Trusts json/yaml of the standard environment and my reading of the three complex notations; user dictionaries that collide with the reserved encodings are excluded.'),

 'C19': dict(design='4/C19', technique='fault injection: complete enumeration of fault class x API x base size x position, each with accepted twins, plus random negative values',
             text='Every fault class of the statement is injected at every position of valid bases of size 1-4 through every construction/loading API and must raise; the un-faulted twin and the 0/-0.0 boundary twins must be accepted and stored unaltered; unknown ids are queried against all six solution kinds. The enumeration over (class x API x position) is complete for these bases; values are fixed pools plus Hypothesis-generated negatives.',
             note='Contract is "raises" (any exception type). Dangling ground nodes and unknown waveforms must be rejected at the latest by the first analysis. Base descriptions are fixed templates.'),

 'C07': dict(design='4/C07', technique='property-based differential testing of circuit->network translation against an independent component table + exhaustive kind x position table',
             text='Generated component lists over all 18 constructors (edge values included) x analysis frequency x resolution; each resulting branch (id, terminal order, immittance, source value, reference node) is compared with an independent table written from the statement, periodic sources with the true Fourier coefficients. Lists of length <= 3 over all kinds are enumerated completely (thorough).',
             note='Trusts my component table (vlib/circuits.py) and the closed-form Fourier coefficients validated by C08; frequencies within 1e-6 of an activation boundary are skipped.'),
 'C02': dict(design='4/C02', technique='property-based differential testing of the phasor/DC analysis against an exact rational tableau solution of the independently translated network',
             text='Generated RLC(+G/Z/Y/lamp/load) circuits with DC/AC sources x frequency (0, source frequencies, just inside/outside the resolution, random) x peak/RMS; potentials, voltages and currents of ComplexSolution and DCSolution are compared with the exact solution of the phasor network. Exploration over generated inputs.',
             note='Trusts vlib/circuits.py + vlib/refsolve.py; inactive lossy sources, ill-posed and ill-conditioned (>1e8) cases are not judged.'),

 'C04': dict(design='4/C04', technique='metamorphic property-based testing (scaling, superposition through the library\'s own source zeroing) + differential check of every partial network against the exact reference',
             text='Generated networks x complex scale factor x partition of the sources x zeroing order; scaling and superposition relations are checked on the library\'s own results (currents compared as physical I12), every partially deactivated network also against the exact tableau solution, zeroing must preserve ids/terminals/immittances and must not touch exempted sources or the exemption list.',
             note='Trusts the reference directions of DESIGN 0.1 and vlib/refsolve.py; relations use 1e-7 of the natural scale.'),
 'C06': dict(design='4/C06', technique='property-based differential testing of port impedances against an exact unit-test-current reference + metamorphic series/shunt composition, symmetry, reference independence, Thevenin/Norton relations',
             text='Generated networks (ideal voltage sources, shorts, opens, floating parts, dangling stubs) x port/element/reference/load choices and RLC circuits x frequency sweeps; every reported impedance is compared with the exact value (infinite for disconnected ports), and the loaded-port voltage with the prediction from Voc and Zth.',
             note='Trusts vlib/refsolve.port_impedance (contracts shorts, prunes unreachable parts, exact solve); undefined (singular) ports and ill-conditioned cases (>1e8, also of the un-contracted network) are not judged.'),
 'C16': dict(design='4/C16', technique='property-based testing of the network transformers: structural quotient-isomorphism oracle (union-find), deep snapshots, exact electrical reference',
             text='Generated networks augmented with shorts by node splitting (chains, stars, parallel shorts, loops, shorts at the reference) and opens x 7 operations x exemption lists; surviving branches must keep id/record/orientation within their node class, nothing else may vanish, no node may split or merge, input and exemption list stay untouched, and the library\'s solution / port impedance of the simplified network must equal the exact solution of the original.',
             note='Exemption lists contain sources and shorts; results that still contain a zero-impedance loop (stale short next to an exempted one) are only judged structurally; leaving a contractible short in place is not a violation (electrically exact).'),

 'C10': dict(design='4/C10', technique='property-based differential testing of the state-space realisation against the exact phasor response per source, with an exact rational domain test',
             text='Generated RLC + ideal-source circuits (skeleton and ladder generators, adversarial names and listing orders), accepted iff two exact determinants show full degree and no root at s=0; for every source, every potential/voltage/current row and 13 frequencies the model\'s transfer function is compared with the exact phasor solution of the circuit driven by that source alone; DC gain against the exact DC solution; state dimension, published source order, wrapper stacking via transfer matrices.',
             note='Trusts vlib/dynamic.py + refsolve.py; frequencies with cond(jwI-A_ref) > 1e8 or a singular phasor network are skipped; tolerance 1e-5 of the natural scale (matrix inverses in the builder).'),
 'C11': dict(design='4/C11', technique='property-based testing of an energy invariant: eigenvalues of sym(W*A) and of A, and monotone stored energy of simulated pulse responses',
             text='Generated circuits in the exact domain of C10 with positive R, C, L: the symmetric part of W*A (W from the generated values in the published state order) must be negative semidefinite, natural frequencies must lie in the closed left half plane, and the energy computed from the simulated capacitor voltages / inductor currents must not increase after the excitation pulses have ended.',
             note='The exact reference model is checked against the same inequality on every case (guards the oracle); slack 1e-9 of the matrix/energy scale.'),
 'C12': dict(design='4/C12', technique='property-based differential testing of transient simulation against the exact first-order-hold response of an independently derived exact state-space model + algebraic circuit-law residuals',
             text='Generated circuits x piecewise-linear source waveforms with grid break points x uniform grids resolving the fastest time constant; every potential, voltage and current series is compared sample by sample with the exact discrete response; start from rest, KCL, Ohm, v=phi1-phi2, C dv/dt and L di/dt as algebraic residuals against the reference ODE, power=v*i; constant inputs must settle to the DC solution and sinusoidal inputs to the phasor steady state.',
             note='Trusts scipy.linalg.expm for the Van Loan discretisation of the exact model (the library uses scipy.signal.lsim); cond(A_ref) <= 1e8; settling comparisons use 2e-3 / 5e-3 of the signal scale.'),

 'C03': dict(design='4/C03', technique='metamorphic property-based testing: bijective renaming, list permutation, element reversal and re-referencing of networks, phasor circuits, state-space models and transient runs',
             text='A generated base case (network, phasor circuit, dynamic circuit) is solved before and after a generated transformation; potential differences, voltages, currents, powers, port impedances, per-source frequency responses and transient waveforms must agree up to the renaming and the sign of the reversed elements\' own voltage and current. Library vs itself, no reference needed; exact domain tests only decide which cases are judged.',
             note='Relative tolerance 1e-7 (1e-5 for state-space quantities) of the natural scale of the base solution; labels come from adversarial pools whose sort order interleaves element kinds.'),

 'C05': dict(design='4/C05', technique='property-based testing of power invariants (Tellegen sum, recomputation from separately queried V and I, sign rules) + differential check against exact powers',
             text='Generated networks, phasor circuits (peak/RMS, DC), multi-frequency circuits x instants and transient runs; the complex (or instantaneous) powers must sum to zero with linear sources counted as delivered, equal V*conj(I) / half / V*I / v*i of the separately queried quantities and the exact tableau powers, and obey the sign rules for resistors, inductors and capacitors (classes from the generated spec).',
             note='Trusts the reference directions of DESIGN 0.1 and the exact reference of C01/C02/C09/C12; sign rules with slack 1e-6 of the power scale.'),
 'C09': dict(design='4/C09', technique='property-based differential testing of the multi-frequency steady state against exact per-frequency phasors with true Fourier coefficients + superposition / KCL / Bessel-bound relations',
             text='Generated RLC circuits with DC, sinusoidal and periodic ideal sources whose frequencies coincide exactly or only up to rounding x w_max x instants; the frequency list, every spectral line, every time function, KCL at every instant, the sum of single-source responses, the reproduction of a periodic source\'s waveform (Bessel bound) and the two-sided mirror symmetry are checked.',
             note='All sources ideal; ambiguous frequency spacings and w_max at a non-dyadic harmonic are not judged; open finding F8 (two-sided spectrum raises) is reported as KNOWN-FINDING.'),

 'C13': dict(design='4/C13', technique='property-based testing over generated drawing programs: union-find model oracle, consistent node bijection, exact electrical reference, metamorphic geometric transformations',
             text='Generated drawing programs (all supported symbols, wires, chains, junctions, labels, ground; plain and rendered execution) are translated and compared with an independent model of what the drawing depicts: component kinds/values/terminal order, node identity (two terminals are one node iff they coincide or are joined by wires), label and reference names, the exact solution of the intended netlist, and invariance under rotation, translation, rescaling, wire subdivision and insertion-order permutation.',
             note='Placement by .endpoints only; symbols are kept longer than their body; electrical comparisons skip ill-posed / ill-conditioned drawings (e.g. closed switches); sin-referenced sources are not generated.'),

 'C15': dict(design='4/C15', technique='round-trip property-based testing of drawing persistence (1-3 save/load cycles, string and file) and differential testing of declarative descriptions against a turtle model',
             text='Generated drawings over the persistable symbol set are saved to JSON and reloaded up to three times; after every cycle the translated circuit must still match the independent model of the original drawing (ids, kinds, values, terminal order, connectivity by node bijection, reference). Generated declarative element lists (every handler, direction, length, place_after, reverse, node and ground entries) are compared with a turtle model that never touches schemdraw.',
             note='JSON only (the statement names JSON; YAML of a drawing is not claimed); two-terminal declarative entries always state a direction; reflections of a whole drawing are not distinguishable at circuit level.'),

 'C14': dict(design='4/C14', technique='property-based testing of schematic annotations: strict text parser with exact decimal arithmetic against quantities of an independently constructed solution object; differential check declarative vs programmatic path',
             text='Generated well-posed drawings x every annotatable element / labelled node x both directions x solution kind x display options; each label text is parsed and must denote, to the displayed precision, +-get_*(id) of a solution object the check builds from the documented meaning of the kind (DC, RMS phasor at 0 / at w, Re{X_peak e^{jwt}}); the declarative solution section must write exactly the labels of the corresponding programmatic calls.',
             note='Uses the library\'s own solver on the translated circuit as reference (validated by C13/C01/C02) so that only the adapter (w, RMS/peak, sign, lookup, formatting) is judged; the time-function power annotation is excluded; open finding F20-C14 (suppressed complex part) is reported as KNOWN-FINDING.'),

 'C20': dict(design='4/C20', technique='model-based testing of generated call histories: every step compared with the same operation in a pristine forked process (isolation server), repeated, and checked against deep snapshots of all shared objects and mutable defaults',
             text='Generated histories of 10-30 public operations (solving, port queries, all transformers with one shared exemption list, circuit transformation, DC/complex/time/frequency solutions, state-space models with shared value dictionaries, transient runs, loaders, complex-number conversion, serialisation) over a pool of descriptions whose Python objects persist across the history; each result must equal the isolated result, repeat identically, and leave every pooled object, shared argument and default argument untouched.',
             note='Histories are generated as plain step lists (not a RuleBasedStateMachine) so that they replay and shrink as data in the common runner; isolation is process isolation by fork from a server that never executed a library operation; floats compared to 1e-12.'),
}

DEFAULT_LEVEL = 'exploration'
LEVELS = {'C19': 'fault_enumeration'}


def main():
    props = [json.loads(l) for l in open(os.path.join(VERIF, 'properties.jsonl'))]
    checks, na = [], []
    for p in props:
        pid = p['id']
        if os.path.exists(os.path.join(VERIF, 'checks', pid.lower() + '.py')) and pid in T:
            t = T[pid]
            checks.append({
                'property_id': pid,
                'quick_cmd': f'./run {pid} quick',
                'thorough_cmd': f'./run {pid} thorough',
                'evidence_file': f'evidence/{pid}.json',
                'replay_cmd_template': './run --replay {path}',
                'engine': t.get('engine', 'hypothesis'),
                'level_claimed': {'category': LEVELS.get(pid, DEFAULT_LEVEL), 'text': t['text'], 'design_ref': 'DESIGN.md section ' + t['design']},
                'level_note': t['note'],
                'technique': t['technique'],
            })
        else:
            na.append({'property_id': pid, 'reason': 'check not built yet (work in progress; the design in DESIGN.md section 4 applies property-based testing to it)'})
    m = {
        'version': 1,
        'setup_cmd': './run --setup',
        'hooks': {
            'guard': 'CIRCUITCALCULATOR_VERIF',
            'enable': 'no source hooks are needed: every observation point is public API; checks import /repo/src fresh in a new interpreter (./run exports CIRCUITCALCULATOR_VERIF=1 for uniformity)',
            'baseline_off_cmd': 'cd /repo && /venv/bin/python -m pytest -ra -q -p no:cacheprovider --timeout=900 --continue-on-collection-errors',
            'source_commits': [],
            'add_only': True,
        },
        'engines': [
            {'name': 'hypothesis', 'path': 'vlib/core.py', 'serves_properties': [c['property_id'] for c in checks],
             'kind_free_text': 'Hypothesis 6.168 strategies driven in collect mode over 16 forked shards (seeded from VERIF_SEED), bucketed failures, bounded shrinking, plain-JSON replay files'},
            {'name': 'enumerator', 'path': 'vlib/core.py', 'serves_properties': [c for c in ('C01', 'C07', 'C18', 'C19') if any(x['property_id'] == c for x in checks)],
             'kind_free_text': 'bounded-exhaustive enumeration (itertools) partitioned over the same shards'},
            {'name': 'exact-reference', 'path': 'vlib/refsolve.py', 'serves_properties': [c['property_id'] for c in checks],
             'kind_free_text': 'independent sparse-tableau circuit solver over the Gaussian rationals (oracle)'},
        ],
        'checks': checks,
        'not_applicable': na,
        'notes': 'All checks run /repo/src (not the wheel installed in /venv, which is what the pinned test command imports). Fix commits in /repo are listed in known_findings.json.',
    }
    with open(os.path.join(VERIF, 'MANIFEST.json'), 'w') as f:
        json.dump(m, f, indent=1)
    try:
        import jsonschema
        jsonschema.validate(m, json.load(open('/root/.vp/MANIFEST.schema.json')))
        print('MANIFEST valid;', len(checks), 'checks,', len(na), 'not applicable')
    except ImportError:
        print('MANIFEST written (jsonschema not available here)')


if __name__ == '__main__':
    main()
