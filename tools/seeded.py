#!/venv/bin/python
"""Handles seeded changes (independently written regressions).
  tools/seeded.py import <worktree> <property> <slug>     verify a sub-agent's worktree and store it under seeded/<property>-<slug>/
  tools/seeded.py run [<dir> ...]                           run the property's check (quick tier) against every stored change
A change is applied to a scratch copy of /repo/src (VERIF_SRC), never to /repo itself."""
import json, os, shutil, subprocess, sys, tempfile, time

V = os.path.dirname(os.path.dirname(os.path.abspath(__file__)))


def sh(cmd, **kw):
    return subprocess.run(cmd, shell=True, capture_output=True, text=True, **kw)


def scratch_with_patch(patch):
    tmp = tempfile.mkdtemp(prefix='seed-')
    shutil.copytree('/repo/src', os.path.join(tmp, 'src'))
    r = sh(f'cd {tmp} && patch -p1 -s < {patch}')
    if r.returncode != 0:
        shutil.rmtree(tmp)
        raise SystemExit(f'patch does not apply to the current /repo/src: {r.stdout}{r.stderr}')
    return tmp


def demo_result(demo, src):
    code = open(demo).read()
    import re
    code = re.sub(r"/tmp/wt-[A-Za-z0-9_-]+/src", src, code)
    p = os.path.join(os.path.dirname(src), 'demo_run.py')
    open(p, 'w').write(code)
    r = sh(f'MPLBACKEND=Agg /venv/bin/python {p}', timeout=600)
    return r.returncode, (r.stdout + r.stderr)[-600:]


def do_import(wt, prop, slug):
    d = os.path.join(V, 'seeded', f'{prop}-{slug}')
    os.makedirs(d, exist_ok=True)
    shutil.copy(os.path.join(wt, 'seed.patch'), os.path.join(d, 'patch.diff'))
    shutil.copy(os.path.join(wt, 'demo.py'), os.path.join(d, 'demo.py'))
    if os.path.exists(os.path.join(wt, 'note.md')):
        shutil.copy(os.path.join(wt, 'note.md'), os.path.join(d, 'note.md'))
    tmp = scratch_with_patch(os.path.join(d, 'patch.diff'))
    try:
        rc_with, out_with = demo_result(os.path.join(d, 'demo.py'), os.path.join(tmp, 'src'))
        clean = tempfile.mkdtemp(prefix='seed-clean-')
        shutil.copytree('/repo/src', os.path.join(clean, 'src'))
        rc_without, out_without = demo_result(os.path.join(d, 'demo.py'), os.path.join(clean, 'src'))
        shutil.rmtree(clean)
        # repository suite against the patched sources
        t = sh(f'cd /repo && HYPOTHESIS_STORAGE_DIRECTORY={tmp}/hdb PYTHONPATH={tmp}/src MPLBACKEND=Agg /venv/bin/python -m pytest -q -p no:cacheprovider --hypothesis-seed=0 tests 2>&1 | tail -1', timeout=1200)
        sh('rm -rf /repo/.hypothesis')
        suite = t.stdout.strip()
    finally:
        shutil.rmtree(tmp)
    meta = {'property': prop, 'dir': f'seeded/{prop}-{slug}', 'demo_exit_with_change': rc_with, 'demo_exit_without_change': rc_without,
            'repo_suite_with_change': suite, 'needs_to_manifest': open(os.path.join(d, 'note.md')).read()[:1500] if os.path.exists(os.path.join(d, 'note.md')) else '',
            'what_was_run': 'demo.py against a scratch copy of /repo/src with and without patch.diff; repo test suite (PYTHONPATH=<patched src>) ; ./run <property> quick with VERIF_SRC=<patched src>',
            'confirmed': rc_with != 0 and rc_without == 0 and '405 passed' in suite}
    json.dump(meta, open(os.path.join(d, 'meta.json'), 'w'), indent=1)
    print(json.dumps({k: meta[k] for k in ('property', 'demo_exit_with_change', 'demo_exit_without_change', 'repo_suite_with_change', 'confirmed')}))
    if rc_with == 0:
        print('   demo output with change:', out_with[-300:])
    if rc_without != 0:
        print('   demo output without change:', out_without[-300:])


def do_run(dirs, tier='quick', props=None):
    dirs = dirs or sorted(os.path.join(V, 'seeded', x) for x in os.listdir(os.path.join(V, 'seeded')) if os.path.isdir(os.path.join(V, 'seeded', x)))
    bad = 0
    for d in dirs:
        meta = json.load(open(os.path.join(d, 'meta.json')))
        try:
            tmp = scratch_with_patch(os.path.join(d, 'patch.diff'))
        except SystemExit as e:
            print(f'{os.path.basename(d):<28} STALE ({e})')
            continue
        try:
            res = {}
            for prop in (props or meta.get('detected_by_candidates') or [meta['property']]):
                env = dict(os.environ, VERIF_SRC=os.path.join(tmp, 'src'), VERIF_EVIDENCE_DIR=os.path.join(tmp, 'ev'), VERIF_REPLAY_DIR=os.path.join(tmp, 'rp'))
                t0 = time.time()
                p = subprocess.run([os.path.join(V, 'run'), prop, tier], env=env, capture_output=True, text=True)
                subs = sorted({l.split('sub=')[1].split(' count=')[0] for l in p.stdout.splitlines() if ' sub=' in l})
                res[prop] = ('DETECTED ' + ';'.join(subs)[:120]) if p.returncode == 1 else f'MISSED (exit {p.returncode})'
                print(f'{os.path.basename(d):<28} {prop} {res[prop]}  [{time.time() - t0:.0f}s]', flush=True)
            meta.setdefault('check_results', {}).update({f'{k}:{tier}': v for k, v in res.items()})
            json.dump(meta, open(os.path.join(d, 'meta.json'), 'w'), indent=1)
            if not any(v.startswith('DETECTED') for v in res.values()):
                bad += 1
        finally:
            shutil.rmtree(tmp)
    return bad


if __name__ == '__main__':
    if sys.argv[1] == 'import':
        do_import(*sys.argv[2:5])
    elif sys.argv[1] == 'run':
        args = sys.argv[2:]
        tier = 'quick'
        if args and args[0] in ('quick', 'thorough'):
            tier, args = args[0], args[1:]
        sys.exit(1 if do_run([os.path.join(V, a) if not a.startswith('/') else a for a in args], tier) else 0)
