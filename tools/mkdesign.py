#!/venv/bin/python
"""Regenerates the two generated tables of DESIGN.md in place:
   * section 5: the findings table, from known_findings.json
   * section 8.2: the seeded-change table, from seeded/*/meta.json (+ seeded/SUMMARIES.json)
The tables are delimited by <!-- BEGIN x --> / <!-- END x --> comment lines."""
import json, os, re
V = os.path.dirname(os.path.dirname(os.path.abspath(__file__)))


def esc(s):
    return s.replace('|', '/').replace('\n', ' ')


def findings_table():
    k = json.load(open(os.path.join(V, 'known_findings.json')))
    rows = ['| id | property | what failed | disposition |', '|---|---|---|---|']
    for f in k['findings']:
        what = re.sub(r'^fixed: property=C\d\d \w+ ', '', f['what'])
        also = f.get('also_affects')
        prop = f['property'] + (f' (+{", ".join(also)})' if also else '')
        disp = f"**fixed** {f['commit']}" if f['status'] == 'fixed' else '**open finding**'
        rows.append(f"| {f['id']} | {prop} | {esc(what)} | {disp} |")
    return '\n'.join(rows)


def seeded_table():
    summ = json.load(open(os.path.join(V, 'seeded', 'SUMMARIES.json')))
    rows = ['| change | what it does / what it needs to manifest | checks (tier: result) |', '|---|---|---|']
    for d in sorted(os.listdir(os.path.join(V, 'seeded'))):
        mp = os.path.join(V, 'seeded', d, 'meta.json')
        if not os.path.exists(mp):
            continue
        m = json.load(open(mp))
        s = summ.get(d)
        if s is None:
            s = re.sub(r'[#*`]', '', m.get('needs_to_manifest', ''))
            s = re.sub(r'\s+', ' ', s).strip()[:330]
        res = []
        for key, v in sorted(m.get('check_results', {}).items()):
            prop, tier = key.split(':')
            res.append(f"{prop} {tier}: {'detected' if v.startswith('DETECTED') else 'MISSED'}")
        rows.append(f"| {d} | {esc(s)} | {'; '.join(res)} |")
    return '\n'.join(rows)


def status_table():
    rows = ['| id | tests of the quick tier: generated / evaluated / non-trivial | known-finding hits | wall |', '|---|---|---|---|']
    for i in range(1, 21):
        pid = f'C{i:02d}'
        ep = os.path.join(V, 'evidence', pid + '.json')
        if not os.path.exists(ep):
            continue
        e = json.load(open(ep))
        c = e['coverage']
        tests = '; '.join(f"{n}: {t['generated']} / {t['evaluations']} / {t['nontrivial']}" + (' (exhaustive)' if n in c.get('exhaustive_tests', []) else '')
                          for n, t in c['per_test'].items())
        kf = ', '.join(f'{k}: {v}' for k, v in c.get('known_finding_hits', {}).items()) or '-'
        rows.append(f"| {pid} | {tests} | {kf} | {e['wall_s']:.0f} s ({e['tier']}, seed {e['seed']}) |")
    return '\n'.join(rows)


def main():
    p = os.path.join(V, 'DESIGN.md')
    s = open(p).read()
    for name, gen in (('FINDINGS', findings_table), ('SEEDED', seeded_table), ('STATUS', status_table)):
        a, b = f'<!-- BEGIN {name} -->', f'<!-- END {name} -->'
        if a not in s:
            raise SystemExit(f'marker {a} missing')
        s = s[:s.index(a) + len(a)] + '\n' + gen() + '\n' + s[s.index(b):]
    open(p, 'w').write(s)
    print('DESIGN.md tables regenerated')


if __name__ == '__main__':
    main()
