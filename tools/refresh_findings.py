#!/venv/bin/python
"""Re-derives the commit hash of every fixed finding from its commit subject (fix commits get rewritten while iterating)."""
import json, subprocess, os
V = os.path.dirname(os.path.dirname(os.path.abspath(__file__)))
k = json.load(open(os.path.join(V, 'known_findings.json')))
log = [l.split(' ', 1) for l in subprocess.check_output(['git', '-C', '/repo', 'log', '--format=%h %s']).decode().splitlines()]
for f in k['findings']:
    if f['status'] != 'fixed':
        continue
    subj = f.get('subject')
    if not subj:
        old = f.get('commit')
        full = [s for h, s in log if h == old]
        if full:
            f['subject'] = subj = full[0]
    if subj:
        hit = [h for h, s in log if s == subj]
        if hit and hit[0] != f.get('commit'):
            import re
            old_hash = f.get('commit')
            if old_hash:
                f['what'] = f['what'].replace(old_hash, hit[0])
            else:       # never replace an empty string: insert the hash after 'property=Cxx'
                f['what'] = re.sub(r'^(fixed: property=C\d\d) +', lambda m: f'{m.group(1)} {hit[0]} ', f['what'])
            f['commit'] = hit[0]
        if not hit:
            print('NOT FOUND:', f['id'], subj)
json.dump(k, open(os.path.join(V, 'known_findings.json'), 'w'), indent=1, ensure_ascii=False)
print('ok')
