#!/venv/bin/python
"""Coverage-guided fuzz target for C18 (atheris / libFuzzer): bytes -> (value, precision, table, kind, flags); the
semantic oracle of checks/c18.py runs inside the target. Findings are written as replay files of checks.c18.
usage: PYTHONPATH=/verif/.deps:/verif fuzz/fuzz_c18.py -runs=200000 -seed=<VERIF_SEED> <corpus dir>"""
import os, sys, json, struct
sys.path.insert(0, os.path.dirname(os.path.dirname(os.path.abspath(__file__))))
sys.path.insert(0, os.path.join(os.path.dirname(os.path.dirname(os.path.abspath(__file__))), '.deps'))
import atheris
from vlib import env
env.setup()
with atheris.instrument_imports(include=['CircuitCalculator.Utils', 'CircuitCalculator.SimpleCircuit.Display']):
    import CircuitCalculator.Utils  # noqa: F401
    import CircuitCalculator.SimpleCircuit.Display  # noqa: F401
from vlib.core import R, match_known, load_known, chash
import checks.c18 as c18
import math

KNOWN, _ = load_known(c18)
OUT = os.environ.get('FUZZ_OUT', '/tmp/fuzz_c18_findings')
seen = set()
stats = {'execs': 0, 'judged': 0, 'violations': 0}


def decode(data: bytes):
    fdp = atheris.FuzzedDataProvider(data)
    kind = fdp.ConsumeIntInRange(0, 2)
    p = fdp.ConsumeIntInRange(1, 6)

    def val():
        mode = fdp.ConsumeIntInRange(0, 2)
        if mode == 0:
            v = fdp.ConsumeFloat()
        else:
            mant = fdp.ConsumeIntInRange(1, 99999999)
            ex = fdp.ConsumeIntInRange(-15, 14)
            digits = len(str(mant))
            v = float(f'{mant}e{ex - digits + 1}')
            for _ in range(fdp.ConsumeIntInRange(0, 2)):
                v = math.nextafter(v, math.inf if fdp.ConsumeBool() else -math.inf)
        if not math.isfinite(v) or v == 0 or not (1e-15 <= abs(v) < 1e15):
            return None
        return -v if fdp.ConsumeBool() else v
    a = val()
    if a is None:
        return None
    if kind == 0:
        return ('float-random', {'v': a, 'p': p, 'table': list(c18.TABLES)[fdp.ConsumeIntInRange(0, len(c18.TABLES) - 1)], 'unit': 'V'})
    b = val()
    if b is None:
        b = 0.0
    if kind == 1:
        polar = fdp.ConsumeBool()
        return ('complex', {'z': [a, b], 'p': p, 'table': ['none', 'default', 'small', 'res'][fdp.ConsumeIntInRange(0, 3)], 'polar': polar,
                            'deg': fdp.ConsumeBool() if polar else False, 'compact': fdp.ConsumeBool(), 'unit': 'V'})
    h = c18.HELPERS[fdp.ConsumeIntInRange(0, len(c18.HELPERS) - 1)]
    c = {'helper': h, 'z': [a, b], 'p': p, 'polar': fdp.ConsumeBool(), 'deg': fdp.ConsumeBool()}
    if h == 'print_sinosoidal':
        c.update(w=abs(b) if fdp.ConsumeBool() else 0.0, sin=fdp.ConsumeBool(), hertz=fdp.ConsumeBool())
    return ('display-helpers', c)


CHECKS = {'float-random': c18.check_float, 'complex': c18.check_complex, 'display-helpers': c18.check_helper}


def one(data: bytes):
    stats['execs'] += 1
    d = decode(data)
    if d is None:
        return
    test, case = d
    stats['judged'] += 1
    r = R()
    CHECKS[test](case, r)
    for sub, detail in r.failures:
        if match_known(KNOWN, case, sub, detail):
            continue
        key = (test, sub)
        if key in seen:
            continue
        seen.add(key)
        stats['violations'] += 1
        os.makedirs(OUT, exist_ok=True)
        path = os.path.join(OUT, f'{chash([test, sub, case])}.json')
        json.dump({'property': 'C18', 'module': 'checks.c18', 'test': test, 'sub': sub, 'detail': detail, 'case': case}, open(path, 'w'), indent=1)
        print(f'FUZZ-FINDING test={test} sub={sub} detail={detail[:160]} replay={path}', flush=True)


if __name__ == '__main__':
    import atexit
    atheris.Setup(sys.argv, one)
    try:
        atheris.Fuzz()
    finally:
        print('FUZZ-STATS', json.dumps(stats), flush=True)
